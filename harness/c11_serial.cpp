// C11 — serialization round trip yields an observably identical object.
//
// For x in {EclipseState, Schedule, SummaryConfig} built from generated models and from the shipped decks, and for
// dynamic state objects (SummaryState, UDQState, Action::State, WellTestState, RestartValue) filled through their
// real update paths with random content:
//     pack(x); unpack into a fresh y
//   * unpacking consumes exactly the bytes that were packed (position() == size)
//   * x == y                                   (the class' own comparison)
//   * structural dump of y == structural dump of x   (every member serializeOp transfers, visitor in sdump.hpp)
//   * query dump of y == query dump of x       (hand-written, through the public getters: sees a member that is
//                                               missing from serializeOp AND operator==)
//   * pack(y) has the same length as pack(x), and unpack(pack(y)) dumps like y
#include "common/sdump.hpp"
#include "common/gdeck.hpp"
#include "common/gkw.hpp"
#include <opm/input/eclipse/EclipseState/Tables/TableManager.hpp>
#include <opm/input/eclipse/EclipseState/Tables/TableContainer.hpp>
#include <opm/input/eclipse/EclipseState/Tables/SimpleTable.hpp>
#include <opm/input/eclipse/EclipseState/Tables/RocktabTable.hpp>
#include <opm/input/eclipse/EclipseState/Tables/PlyshlogTable.hpp>
#include <opm/input/eclipse/Parser/Parser.hpp>
#include <opm/input/eclipse/Parser/ParseContext.hpp>
#include <opm/input/eclipse/Parser/ErrorGuard.hpp>
#include <opm/input/eclipse/Parser/InputErrorAction.hpp>
#include <opm/input/eclipse/EclipseState/EclipseState.hpp>
#include <opm/input/eclipse/EclipseState/SummaryConfig/SummaryConfig.hpp>
#include <opm/input/eclipse/Schedule/Schedule.hpp>
#include <opm/input/eclipse/Schedule/ScheduleState.hpp>
#include <opm/input/eclipse/Schedule/SummaryState.hpp>
#include <opm/input/eclipse/Schedule/UDQ/UDQState.hpp>
#include <opm/input/eclipse/Schedule/UDQ/UDQConfig.hpp>
#include <opm/input/eclipse/Schedule/MSW/SegmentMatcher.hpp>
#include <opm/input/eclipse/Schedule/Well/WellMatcher.hpp>
#include <opm/input/eclipse/EclipseState/Grid/RegionSetMatcher.hpp>
#include <opm/input/eclipse/EclipseState/Grid/FIPRegionStatistics.hpp>
#include <opm/input/eclipse/Schedule/UDQ/UDQSet.hpp>
#include <opm/input/eclipse/Schedule/Action/State.hpp>
#include <opm/input/eclipse/Schedule/Action/ActionX.hpp>
#include <opm/input/eclipse/Schedule/Action/ActionResult.hpp>
#include <opm/input/eclipse/Schedule/Well/WellTestState.hpp>
#include <opm/input/eclipse/Schedule/Well/WellTestConfig.hpp>
#include <opm/input/eclipse/Schedule/Group/GTNode.hpp>
#include <opm/input/eclipse/Python/Python.hpp>
#include <opm/output/eclipse/RestartValue.hpp>
#include <opm/output/data/Solution.hpp>
#include <opm/output/data/Wells.hpp>
#include <filesystem>

using namespace Opm;
namespace fs = std::filesystem;
using vh::Rng;

static std::string g_phase;   // what the harness was doing when an exception escaped (diagnostic only)
static std::string hexd(double d) { char b[24]; snprintf(b, sizeof b, "%016llx", (unsigned long long)vh::bits(d)); return b; }

// ------------------------------------------------------------------------------------------------------
// query dumps through public getters (independent of serializeOp and of operator==)
// ------------------------------------------------------------------------------------------------------
static void qWell(std::ostringstream& o, const Well& w, const SummaryState& st) {
    o << "W " << w.name() << " g=" << w.groupName() << " ij=" << w.getHeadI() << "," << w.getHeadJ() << " st=" << (int)w.getStatus() << " prod=" << w.isProducer() << " inj=" << w.isInjector()
      << " pred=" << w.predictionMode() << " ref=" << (w.hasRefDepth() ? hexd(w.getRefDepth()) : "-") << " ef=" << hexd(w.getEfficiencyFactor()) << " gr=" << hexd(w.getGuideRate()) << "/" << (int)w.getGuideRatePhase() << "/" << hexd(w.getGuideRateScalingFactor())
      << " avail=" << w.isAvailableForGroupControl() << " xflow=" << w.getAllowCrossFlow() << " autoshut=" << w.getAutomaticShutIn() << " phase=" << (int)w.getPreferredPhase() << " drad=" << hexd(w.getDrainageRadius())
      << " seq=" << w.seqIndex() << " first=" << w.firstTimeStep() << " msw=" << w.isMultiSegment() << " vfp=" << w.vfp_table_number() << " pvt=" << w.pvt_table_number() << " fip=" << w.fip_region_number()
      << " solv=" << hexd(w.getSolventFraction()) << " injT=" << ((w.isInjector() && w.hasInjTemperature()) ? hexd(w.inj_temperature()) : "-") << " hasInj=" << w.hasInjected() << " hasProd=" << w.hasProduced();   // (Well::wListNames() is declared but not defined in the library)
    if (w.isProducer()) {
        const auto& p = w.getProductionProperties();
        o << " P{cm=" << (int)p.controlMode << " pm=" << p.predictionMode << " vfp=" << p.VFPTableNumber << " alq=" << p.ALQValue.is<double>()
          << " ctrls=" << p.productionControls() << " whist=" << (int)p.whistctl_cmode;
        try { auto c = w.productionControls(st); o << " o=" << hexd(c.oil_rate) << " w=" << hexd(c.water_rate) << " g=" << hexd(c.gas_rate) << " l=" << hexd(c.liquid_rate) << " r=" << hexd(c.resv_rate) << " bhp=" << hexd(c.bhp_limit) << " thp=" << hexd(c.thp_limit) << " hbhp=" << hexd(c.bhp_history) << " hthp=" << hexd(c.thp_history); } catch (const std::exception&) { o << " ctrl-throws"; }
        o << "}";
    } else {
        const auto& p = w.getInjectionProperties();
        o << " I{cm=" << (int)p.controlMode << " pm=" << p.predictionMode << " type=" << (int)p.injectorType << " vfp=" << p.VFPTableNumber << " ctrls=" << p.injectionControls;
        try { auto c = w.injectionControls(st); o << " s=" << hexd(c.surface_rate) << " r=" << hexd(c.reservoir_rate) << " bhp=" << hexd(c.bhp_limit) << " thp=" << hexd(c.thp_limit); } catch (const std::exception&) { o << " ctrl-throws"; }
        o << "}";
    }
    const auto& e = w.getEconLimits();
    o << " E{" << e.onAnyEffectiveLimit() << " " << hexd(e.minOilRate()) << " " << hexd(e.minGasRate()) << " " << hexd(e.maxWaterCut()) << " " << (int)e.workover() << " " << e.endRun() << "}";
    o << " C[";
    for (const auto& c : w.getConnections())
        o << c.getI() << "," << c.getJ() << "," << c.getK() << ":" << (int)c.state() << ":" << (int)c.dir() << ":" << c.complnum() << ":" << c.segment() << ":" << (int)c.kind() << ":" << c.sort_value() << ":" << hexd(c.CF()) << ":" << hexd(c.Kh()) << ":" << hexd(c.rw()) << ":" << hexd(c.r0()) << ":" << hexd(c.skinFactor()) << ":" << hexd(c.depth()) << ":" << hexd(c.wpimult()) << ":" << c.satTableId() << ":" << c.global_index() << ";";
    o << "]";
    if (w.isMultiSegment()) {
        o << " S[";
        for (const auto& s : w.getSegments()) o << s.segmentNumber() << ":" << s.branchNumber() << ":" << s.outletSegment() << ":" << hexd(s.totalLength()) << ":" << hexd(s.depth()) << ":" << hexd(s.internalDiameter()) << ":" << hexd(s.roughness()) << ":" << hexd(s.crossArea()) << ":" << hexd(s.volume()) << ":" << (int)s.segmentType() << ";";
        o << "]";
    }
    o << " pavg=" << hexd(w.pavg().inner_weight()) << "," << hexd(w.pavg().conn_weight()) << "," << w.pavg().open_connections() << "\n";
}

static std::string querySchedule(const Schedule& s) {
    std::ostringstream o;
    SummaryState st(TimeService::from_time_t(s.getStartTime()), 0.0);
    o << "size=" << s.size() << " start=" << s.getStartTime() << " exit=" << (s.exitStatus() ? *s.exitStatus() : -1) << "\n";
    for (size_t k = 0; k < s.size(); ++k) {
        o << "== step " << k << " t=" << s.seconds(k) << " len=" << (k + 1 < s.size() ? s.stepLength(k) : -1) << "\n";
        g_phase = "Schedule:query:wells"; for (const auto& wn : s.wellNames(k)) qWell(o, s.getWell(wn, k), st);
        g_phase = "Schedule:query:groups";
        for (const auto& gn : s.groupNames(k)) {
            const auto& g = s.getGroup(gn, k);
            o << "G " << g.name() << " parent=" << (g.name() == "FIELD" ? "" : g.parent()) << " ef=" << hexd(g.getGroupEfficiencyFactor()) << " tr=" << g.getTransferGroupEfficiencyFactor() << " wells=[";
            for (auto& w : g.wells()) o << w << ",";
            o << "] groups=[";
            for (auto& c : g.groups()) o << c << ",";
            o << "] prod=" << g.isProductionGroup() << " inj=" << g.isInjectionGroup() << " avail=" << g.productionGroupControlAvailable() << " gtype=" << (int)g.getGroupType() << " ins=" << g.insert_index();
            if (g.isProductionGroup()) { auto c = g.productionControls(st); o << " P{" << (int)c.cmode << " " << hexd(c.oil_target) << " " << hexd(c.water_target) << " " << hexd(c.gas_target) << " " << hexd(c.liquid_target) << " " << hexd(c.resv_target) << " " << c.production_controls << " " << (int)c.guide_rate_def << " " << hexd(c.guide_rate) << "}"; }
            for (auto ph : {Phase::WATER, Phase::GAS, Phase::OIL}) if (g.hasInjectionControl(ph)) { auto c = g.injectionControls(ph, st); o << " I" << (int)ph << "{" << (int)c.cmode << " " << hexd(c.surface_max_rate) << " " << hexd(c.resv_max_rate) << " " << hexd(c.target_reinj_fraction) << " " << hexd(c.target_void_fraction) << " " << c.reinj_group << " " << c.voidage_group << "}"; }
            o << "\n";
        }
        g_phase = "Schedule:query:state";
        const auto& ss = s[k];
        o << "events=" << ss.events().hasEvent(~0ULL) << " tuning=" << hexd(ss.tuning().TSINIT.value_or(-1)) << "," << hexd(ss.tuning().TSMAXZ) << "," << ss.tuning().NEWTMX << " nupcol=" << ss.nupcol() << " maxnext=" << hexd(ss.max_next_tstep()) << "\n";
        const auto& udq = ss.udq.get();
        o << "udq: ";
        for (const auto& d : udq.definitions()) o << "D " << d.keyword() << "=" << d.input_string() << ";";
        for (const auto& a : udq.assignments()) o << "A " << a.keyword() << ";";
        // what the expressions evaluate to (operator== of the expression tree does not look at every member, e.g. the sign of a node)
        if (udq.size() > 0) {
            g_phase = "Schedule:query:udq-eval";
            SummaryState ust(TimeService::from_time_t(s.getStartTime()), 0.0);
            UDQState ustate(udq.params().undefinedValue());
            double seedv = 1.0;
            for (const auto& wn : s.wellNames(k)) for (const char* v : {"WOPR", "WWPR", "WGPR", "WBHP", "WOPT"}) { ust.update_well_var(wn, v, seedv); seedv = seedv * 1.37 + 0.61; }
            for (const auto& gn : s.groupNames(k)) for (const char* v : {"GOPR", "GWPR", "GGPR"}) { ust.update_group_var(gn, v, seedv); seedv = seedv * 1.21 + 0.3; }
            for (const char* v : {"FOPR", "FWPR", "FGPR", "FOPT", "FWIR"}) { ust.update(v, seedv); seedv = seedv * 1.11 + 0.7; }
            try {
                auto segF = [&]() { return std::make_unique<SegmentMatcher>(ss); };
                auto regF = []() { return std::make_unique<RegionSetMatcher>(FIPRegionStatistics{}); };
                udq.eval(k, s.wellMatcher(k), segF, regF, ust, ustate);
                o << " eval:";
                for (const auto& d : udq.definitions()) {
                    const auto& key = d.keyword();
                    if (key[0] == 'W') { for (const auto& wn : s.wellNames(k)) if (ust.has_well_var(wn, key)) o << key << ":" << wn << "=" << hexd(ust.get_well_var(wn, key)) << ","; }
                    else if (key[0] == 'G') { for (const auto& gn : s.groupNames(k)) if (ust.has_group_var(gn, key)) o << key << ":" << gn << "=" << hexd(ust.get_group_var(gn, key)) << ","; }
                    else if (ust.has(key)) o << key << "=" << hexd(ust.get(key)) << ",";
                }
            } catch (const std::exception& e) { o << " eval-throws"; }
            g_phase = "Schedule:query:state";
        }
        o << "\nactions: ";
        for (const auto& a : ss.actions.get()) { o << a.name() << " max=" << a.max_run() << " wait=" << hexd(a.min_wait()) << " start=" << a.start_time() << " cond=["; for (auto& c : a.conditions()) o << c.cmp_string << "|"; o << "] kw=["; for (const auto& kw : a) o << kw.name() << ","; o << "];"; }
        o << "\nwlists: ";
        const auto& wlm = ss.wlist_manager.get();
        for (const auto& wn : s.wellNames(k)) { if (wlm.hasWList(wn)) for (auto& l : wlm.getWListNames(wn)) o << wn << "@" << l << ","; }
        o << "\nrft=" << ss.rft_config().active() << " netw=" << ss.network().active() << " glo=" << ss.glo().active() << " guiderate=" << ss.guide_rate().has_model() << " wtest=";
        for (const auto& wn : s.wellNames(k)) if (ss.wtest_config().has(wn)) o << wn << ",";
        o << " rst_basic=" << ss.rst_config().basic.value_or(-1) << " rst_write=" << ss.rst_config().write_rst_file.value_or(false) << " vfpprod=";
        { std::vector<std::string> v; for (const auto& t : ss.vfpprod()) v.push_back(std::to_string(t.get().getTableNum()) + ":" + std::to_string(t.get().getTable().size())); std::sort(v.begin(), v.end()); for (auto& e : v) o << e << ","; }
        o << " gecon=" << ss.gecon().size() << " geo_keywords=" << ss.geo_keywords().size() << "\n";
    }
    return o.str();
}

static std::string queryEclipseState(const EclipseState& es) {
    std::ostringstream o;
    const auto& rs = es.runspec();
    o << "title=" << es.getTitle() << " units=" << es.getUnits().getName() << " phases=" << rs.phases().size() << " start=" << rs.start_time() << " co2=" << rs.co2Storage() << " comp=" << rs.compositionalMode()
      << " tabdims=" << rs.tabdims().getNumSatTables() << "," << rs.tabdims().getNumPVTTables() << " welldims=" << rs.wellDimensions().maxWellsInField() << "," << rs.wellDimensions().maxConnPerWell() << " udq=" << rs.udqParams().undefinedValue()
      << " hyst=" << rs.hysterPar().active() << " actdims=" << rs.actdims().max_keywords() << " eps=" << rs.endpointScaling() << "\n";
    const auto& tm = es.getTableManager();
    auto tabs = [&](const char* name, const TableContainer& tc) {
        o << name << "[" << tc.size() << "]:";
        for (size_t t = 0; t < tc.size(); ++t) { if (!tc.hasTable(t)) { o << "-;"; continue; } const auto& tb = tc.getTable(t); for (size_t c = 0; c < tb.numColumns(); ++c) { const auto& col = tb.getColumn(c); for (size_t r = 0; r < col.size(); ++r) o << hexd(col[r]) << (col.defaultApplied(r) ? "d" : "") << ","; o << "|"; } o << ";"; }
        o << "\n";
    };
    tabs("SWOF", tm.getSwofTables()); tabs("SGOF", tm.getSgofTables()); tabs("PVDG", tm.getPvdgTables()); tabs("PVDO", tm.getPvdoTables()); tabs("RSVD", tm.getRsvdTables()); tabs("SWFN", tm.getSwfnTables()); tabs("SGFN", tm.getSgfnTables()); tabs("SOF3", tm.getSof3Tables());
    for (const auto& t : tm.getPvtoTables()) { o << "PVTO:"; for (size_t i = 0; i < t.size(); ++i) { const auto& u = t.getUnderSaturatedTable(i); for (size_t c = 0; c < u.numColumns(); ++c) for (size_t r = 0; r < u.getColumn(c).size(); ++r) o << hexd(u.getColumn(c)[r]) << ","; o << "|"; } o << "\n"; }
    for (const auto& r : tm.getPvtwTable()) o << "PVTW " << hexd(r.reference_pressure) << " " << hexd(r.volume_factor) << " " << hexd(r.compressibility) << " " << hexd(r.viscosity) << " " << hexd(r.viscosibility) << "\n";
    for (const auto& r : tm.getDensityTable()) o << "DENSITY " << hexd(r.oil) << " " << hexd(r.water) << " " << hexd(r.gas) << "\n";
    for (const auto& r : tm.getRockTable()) o << "ROCK " << hexd(r.reference_pressure) << " " << hexd(r.compressibility) << "\n";
    o << "equil:";
    if (es.getInitConfig().hasEquil()) for (const auto& e : es.getInitConfig().getEquil()) o << hexd(e.datumDepth()) << "," << hexd(e.datumDepthPressure()) << "," << hexd(e.waterOilContactDepth()) << "," << hexd(e.gasOilContactDepth()) << "," << e.liveOilInitConstantRs() << ";";
    o << " restart=" << es.getInitConfig().restartRequested() << "\n";
    const auto& io = es.getIOConfig();
    o << "io: unifin=" << io.getUNIFIN() << " unifout=" << io.getUNIFOUT() << " fmtin=" << io.getFMTIN() << " fmtout=" << io.getFMTOUT() << " init=" << io.getWriteINITFile() << " egrid=" << io.getWriteEGRIDFile() << " base=" << io.getBaseName() << "\n";
    const auto& sc = es.getSimulationConfig();
    o << "sim: thpres=" << sc.useThresholdPressure() << " cpr=" << sc.useCPR() << " disgas=" << sc.hasDISGAS() << " vapoil=" << sc.hasVAPOIL() << " thermal=" << sc.isThermal() << "\n";
    o << "faults=" << es.getFaults().size() << " aquifer=" << es.aquifer().active() << " nnc=" << es.getInputNNC().input().size() << " tracers=" << es.tracer().size() << "\n";
    return o.str();
}

static std::string querySummaryConfig(const SummaryConfig& sc) {
    std::ostringstream o;
    o << "n=" << sc.size() << "\n";
    for (const auto& n : sc) o << n.keyword() << " cat=" << (int)n.category() << " type=" << (int)n.type() << " name=" << n.namedEntity() << " num=" << n.number() << " user=" << n.isUserDefined() << " key=" << n.uniqueNodeKey() << " fip=" << (n.category() == SummaryConfigNode::Category::Region ? n.fip_region() : std::string("-")) << "\n";   // fip_region() dereferences an optional that only region nodes set
    o << "rsm=" << sc.createRunSummary() << "\n";
    return o.str();
}

// ------------------------------------------------------------------------------------------------------
template <class T, class = void> struct has_eq : std::false_type {};
template <class T> struct has_eq<T, std::void_t<decltype(std::declval<const T&>() == std::declval<const T&>())>> : std::true_type {};

template <class T, class Q>
static void roundTrip(vh::Reporter& rep, const std::string& cls, const T& x, Q&& query, const std::string& witness) {
    sdump::Options dop;
    Serialization::MemPacker packer;
    sdump::Ser ser(packer);
    g_phase = cls + ":pack";
    ser.pack(x);
    const size_t n1 = ser.buf().size();
    T y;
    g_phase = cls + ":unpack";
    ser.unpack(y);
    // re-pack before any observer runs: several classes fill `mutable` caches in const getters (UDQDefine::input_string()),
    // which would make the second buffer longer for reasons that have nothing to do with serialization
    g_phase = cls + ":repack";
    sdump::Ser ser2(packer);
    ser2.pack(y);
    const size_t n2 = ser2.buf().size();
    T z;
    ser2.unpack(z);
    const bool consumed2 = ser2.position() == n2;
    g_phase = cls + ":compare";
    rep.count("round_trips");
    rep.cover("class", cls);
    rep.maxof("max_packed_bytes_" + cls, (double)n1);
    if (ser.position() != n1) rep.violation("unpack-consumed-" + std::string(ser.position() < n1 ? "less" : "more") + ":" + cls, cls + ": unpack consumed " + std::to_string(ser.position()) + " of " + std::to_string(n1) + " packed bytes", witness);
    if constexpr (has_eq<T>::value) if (!(x == y)) rep.violation("not-equal-after-roundtrip:" + cls, cls + ": x == unpack(pack(x)) is false", witness);
    std::string dx = sdump::dump(x, dop), dy = sdump::dump(y, dop);
    if (dx != dy) rep.violation("structural-dump-differs:" + cls, cls + ": structural dump differs after round trip " + sdump::firstDiff(dx, dy, 120).substr(0, 400), witness + "\n" + sdump::firstDiff(dx, dy));
    g_phase = cls + ":query";
    std::string qx = query(x), qy = query(y);
    g_phase = cls + ":repack";
    if (qx != qy) rep.violation("query-dump-differs:" + cls, cls + ": public queries answer differently after round trip " + sdump::firstDiff(qx, qy, 120).substr(0, 400), witness + "\n" + sdump::firstDiff(qx, qy));
    rep.count("query_dump_bytes", (long)qx.size());
    // member by member: ScheduleState::operator== leaves several members out (bcprop, aqufluxs, pavg, gecon, rst_config ...), so
    // every public member and getter is compared with its own operator== here
    if constexpr (std::is_same_v<T, Schedule>) {
        g_phase = cls + ":member-wise";
        auto eqp = [](const auto& a, const auto& b) { return a.get() == b.get(); };
        for (size_t k = 0; k < x.size() && k < y.size(); ++k) {
            const auto& a = x[k]; const auto& b = y[k];
            std::string bad;
#define C11_PTR(m) if (!eqp(a.m, b.m)) bad += #m " ";
#define C11_VAL(e) if (!(a.e == b.e)) bad += #e " ";
            C11_PTR(gconsale) C11_PTR(gconsump) C11_PTR(gecon) C11_PTR(guide_rate) C11_PTR(wlist_manager) C11_PTR(well_order) C11_PTR(group_order)
            C11_PTR(actions) C11_PTR(udq) C11_PTR(udq_active) C11_PTR(pavg) C11_PTR(wtest_config) C11_PTR(glo) C11_PTR(network) C11_PTR(network_balance)
            C11_PTR(rpt_config) C11_PTR(rft_config) C11_PTR(rst_config) C11_PTR(bhp_defaults) C11_PTR(source)
            C11_VAL(aqufluxs) C11_VAL(bcprop) C11_VAL(target_wellpi) C11_VAL(next_tstep)
            C11_VAL(start_time()) C11_VAL(sim_step()) C11_VAL(month_num()) C11_VAL(year_num()) C11_VAL(first_in_month()) C11_VAL(first_in_year()) C11_VAL(save())
            C11_VAL(tuning()) C11_VAL(nupcol()) C11_VAL(oilvap()) C11_VAL(events()) C11_VAL(wellgroup_events()) C11_VAL(geo_keywords()) C11_VAL(message_limits())
            C11_VAL(whistctl()) C11_VAL(rptonly())
#undef C11_PTR
#undef C11_VAL
            rep.count("schedule_member_comparisons", 44);
            if (!bad.empty()) { rep.violation("member-differs-after-roundtrip:Schedule", "report step " + std::to_string(k) + ": member(s) " + bad + "of ScheduleState compare unequal after the round trip", witness); break; }
        }
        g_phase = cls + ":repack";
    }
    if constexpr (std::is_same_v<T, EclipseState>) {
        // the same for the parts of an EclipseState that have their own operator==
        g_phase = cls + ":member-wise";
        std::string bad;
#define C11_G(e) if (!(x.e == y.e)) bad += #e " ";
        C11_G(getIOConfig()) C11_G(getInitConfig()) C11_G(getSimulationConfig()) C11_G(getFaults()) C11_G(getTransMult()) C11_G(getInputNNC())
        C11_G(getTableManager()) C11_G(getEclipseConfig()) C11_G(gridDims()) C11_G(getLgrs()) C11_G(getTitle()) C11_G(runspec()) C11_G(aquifer())
        C11_G(tracer()) C11_G(getMICPpara()) C11_G(getWagHysteresis())
#undef C11_G
        rep.count("eclipsestate_member_comparisons", 16);
        if (!bad.empty()) rep.violation("member-differs-after-roundtrip:EclipseState", "part(s) " + bad + "of the EclipseState compare unequal after the round trip", witness);
        g_phase = cls + ":repack";
    }
    // a third, independently written observer for the Schedule: upstream's own getter based notion of equivalence
    if constexpr (std::is_same_v<T, Schedule>) {
        g_phase = cls + ":Schedule::cmp";
        for (size_t k = 0; k < x.size(); ++k) {
            rep.count("schedule_cmp_calls");
            // (the function is written for restarted schedules and throws for some inputs, e.g. a UDA holding a UDQ name: then it
            // has nothing to say about this step)
            bool self = false;
            try { self = Schedule::cmp(x, x, k); } catch (const std::exception&) { rep.count("schedule_cmp_not_usable_for_this_step"); continue; }
            if (self && !Schedule::cmp(x, y, k)) { rep.violation("schedule-cmp-false-after-roundtrip", "Schedule::cmp(x, unpack(pack(x)), " + std::to_string(k) + ") is false while Schedule::cmp(x, x, " + std::to_string(k) + ") is true", witness); break; }
        }
        g_phase = cls + ":repack";
    }
    if (n2 != n1) rep.violation("repack-length-differs:" + cls, cls + ": pack(unpack(pack(x))) has " + std::to_string(n2) + " bytes, pack(x) " + std::to_string(n1), witness);
    if (!consumed2) rep.violation("second-unpack-consumed-wrong-size:" + cls, cls + ": second unpack did not consume its buffer", witness);
    if (sdump::dump(z, dop) != dy) rep.violation("second-roundtrip-differs:" + cls, cls + ": second round trip changes the object", witness + "\n" + sdump::firstDiff(dy, sdump::dump(z, dop)));
}

static void deckObjects(vh::Reporter& rep, Parser& parser, const std::shared_ptr<Python>& python, const Deck& deck, const ParseContext& pc, const std::string& witness, bool& built) {
    ErrorGuard eg;
    EclipseState es(deck);
    Schedule sched(deck, es, pc, eg, python);
    eg.clear();
    SummaryConfig sc(deck, sched, es.fieldProps(), es.aquifer(), pc, eg);
    eg.clear();
    built = true;
    (void)parser;
    roundTrip(rep, "Schedule", sched, querySchedule, witness);
    roundTrip(rep, "EclipseState", es, queryEclipseState, witness);
    roundTrip(rep, "SummaryConfig", sc, querySummaryConfig, witness);
    // (ScheduleState is not round-tripped on its own: its shared members are packed by Schedule::serializeOp)
}

static void dynamicStates(vh::Reporter& rep, Rng& rng) {
    auto rd = [&]() { return rng.chance(0.1) ? 0.0 : rng.uniform(-1e4, 1e6); };
    auto wn = [&](int i) { return "W" + std::to_string(i); };
    // SummaryState through its real update paths
    SummaryState st(TimeService::from_time_t(1577836800 + (long)rng.below(100000)), rng.chance(0.5) ? 0.0 : -999.0);
    int nw = 1 + (int)rng.below(6);
    for (int q = 0; q < 40; ++q) {
        switch (rng.below(7)) {
        case 0: st.update(rng.chance(0.5) ? "FOPT" : (rng.chance(0.5) ? "FOPR" : "TIME"), rd()); break;
        case 1: st.update_well_var(wn((int)rng.below(nw)), rng.chance(0.5) ? "WOPR" : "WWCT", rd()); break;
        case 2: st.update_group_var("G" + std::to_string(rng.below(3)), rng.chance(0.5) ? "GOPR" : "GOPT", rd()); break;
        case 3: st.update_elapsed(rng.uniform(0, 1e6)); break;
        case 4: st.update_conn_var(wn((int)rng.below(nw)), "COPR", 1 + rng.below(100), rd()); break;
        case 5: st.update_segment_var(wn((int)rng.below(nw)), "SOFR", 1 + rng.below(10), rd()); break;
        case 6: st.update_region_var("FIPNUM", "ROIP", 1 + rng.below(4), rd()); break;
        }
    }
    std::ostringstream w; w << "random SummaryState with " << st.size() << " entries";
    roundTrip(rep, "SummaryState", st, [&](const SummaryState& s) {
        std::ostringstream o; o << hexd(s.get_elapsed()) << " n=" << s.size() << " ";
        std::vector<std::string> keys; for (const auto& kv : s) keys.push_back(kv.first + "=" + hexd(kv.second)); std::sort(keys.begin(), keys.end()); for (auto& k : keys) o << k << ";";
        for (auto& wname : s.wells()) { o << "|" << wname << ":"; for (auto& v : s.wells(wname)) (void)v; if (s.has_well_var(wname, "WOPR")) o << hexd(s.get_well_var(wname, "WOPR")); }
        for (auto& g : s.groups()) { o << "|" << g; if (s.has_group_var(g, "GOPR")) o << hexd(s.get_group_var(g, "GOPR")); }
        return o.str(); }, w.str());

    // UDQState
    UDQState us(rng.chance(0.5) ? -99.0 : 0.0);
    std::vector<std::string> wells; for (int i = 0; i < nw; ++i) wells.push_back(wn(i));
    for (int q = 0; q < 6; ++q) {
        if (rng.chance(0.5)) { UDQSet s = UDQSet::wells("WUX" + std::to_string(q), wells); for (auto& wname : wells) if (rng.chance(0.7)) s.assign(wname, rd()); if (rng.chance(0.5)) us.add_define(rng.below(5), "WUX" + std::to_string(q), s); else us.add_assign("WUX" + std::to_string(q), s); }
        else { UDQSet s = UDQSet::scalar("FUX" + std::to_string(q), rd()); us.add_define(rng.below(5), "FUX" + std::to_string(q), s); }
    }
    roundTrip(rep, "UDQState", us, [&](const UDQState& u) { std::ostringstream o; for (int q = 0; q < 6; ++q) { std::string k = "WUX" + std::to_string(q); for (auto& wname : wells) if (u.has_well_var(wname, k)) o << k << wname << hexd(u.get_well_var(wname, k)) << ";"; std::string f = "FUX" + std::to_string(q); if (u.has(f)) o << f << hexd(u.get(f)) << ";"; } o << hexd(u.undefined_value()); return o.str(); }, "random UDQState");

    // WellTestState
    WellTestState wt;
    for (int q = 0; q < 8; ++q) {
        switch (rng.below(3)) {
        case 0: wt.close_well(wn((int)rng.below(nw)), rng.chance(0.5) ? WellTestConfig::Reason::PHYSICAL : WellTestConfig::Reason::ECONOMIC, rng.uniform(0, 1e7)); break;
        case 1: wt.close_completion(wn((int)rng.below(nw)), 1 + (int)rng.below(5), rng.uniform(0, 1e7)); break;
        case 2: { auto name = wn((int)rng.below(nw)); if (wt.well_is_closed(name)) wt.open_well(name); break; }
        }
    }
    roundTrip(rep, "WellTestState", wt, [&](const WellTestState& t) { std::ostringstream o; o << t.num_closed_wells() << " " << t.num_closed_completions() << " "; for (auto& wname : wells) { o << wname << t.well_is_closed(wname); for (int c = 1; c <= 5; ++c) o << t.completion_is_closed(wname, c); } return o.str(); }, "random WellTestState");

    // RestartValue
    data::Solution sol;
    size_t nc = 1 + rng.below(50);
    for (const char* k : {"PRESSURE", "SWAT", "SGAS", "RS"}) if (rng.chance(0.8)) { std::vector<double> v(nc); for (auto& e : v) e = rd(); sol.insert(k, UnitSystem::measure::pressure, std::move(v), data::TargetType::RESTART_SOLUTION); }
    data::Wells dw;
    for (int i = 0; i < nw; ++i) {
        data::Well w{}; w.rates.set(data::Rates::opt::oil, rd()); w.rates.set(data::Rates::opt::wat, rd()); w.bhp = rd(); w.thp = rd(); w.temperature = rd(); w.control = (int)rng.below(8);
        for (int c = 0; c < 1 + (int)rng.below(3); ++c) { data::Connection cn{}; cn.index = rng.below(1000); cn.rates.set(data::Rates::opt::gas, rd()); cn.pressure = rd(); cn.trans_factor = rd(); w.connections.push_back(cn); }
        dw[wn(i)] = w;
    }
    RestartValue rv(std::move(sol), std::move(dw), data::GroupAndNetworkValues{}, data::Aquifers{});
    if (rng.chance(0.7)) { std::vector<double> v(nc); for (auto& e : v) e = rd(); rv.addExtra("EXTRA", UnitSystem::measure::identity, std::move(v)); }
    if (rep.args.replaying) {
        Serialization::MemPacker pk; sdump::Ser sr(pk); sr.pack(rv); RestartValue y; sr.unpack(y);
        fprintf(stderr, "RestartValue parts: solution %d wells %d grp %d aquifer %d extra %d\n", rv.solution == y.solution, rv.wells == y.wells, rv.grp_nwrk == y.grp_nwrk, rv.aquifer == y.aquifer, rv.extra == y.extra);
        for (const auto& kv : rv.wells) { const auto& a = kv.second; const auto& b = y.wells.at(kv.first); fprintf(stderr, " %s: well %d rates %d conns %d segs %d ctl %d guide %d\n", kv.first.c_str(), a == b, a.rates == b.rates, a.connections == b.connections, a.segments == b.segments, a.current_control == b.current_control, a.guide_rates == b.guide_rates);
            for (size_t c = 0; c < a.connections.size(); ++c) fprintf(stderr, "   conn %zu: %d\n", c, a.connections[c] == b.connections[c]); }
    }
    roundTrip(rep, "RestartValue", rv, [&](const RestartValue& r) { std::ostringstream o; o << r.solution.size() << " " << r.wells.size() << " " << r.extra.size(); for (const auto& kv : r.wells) o << kv.first << hexd(kv.second.bhp) << hexd(kv.second.rates.get(data::Rates::opt::oil, 0.0)) << kv.second.connections.size(); for (auto& e : r.extra) o << e.first.key << e.second.size(); return o.str(); }, "random RestartValue");
}

// ------------------------------------------------------------------------------------------------------
// mode=tables: TableManager objects with many table families and several regions per family
// ------------------------------------------------------------------------------------------------------
struct TableFamily { std::string kw, dimsKw, dimsItem; int ncols; int shift; std::vector<int> pattern; bool usable = false; };

static std::string tableText(const TableFamily& f, int ntables, int rows, Rng* rng) {
    // column 0 strictly increasing; the others follow the family's accepted pattern (+1 increasing, -1 decreasing, 0 constant)
    std::ostringstream s;
    s << f.kw << "\n";
    for (int t = 0; t < ntables; ++t) {
        for (int r = 0; r < rows; ++r) {
            double x = (r + 1.0) / (rows + 1.0);
            for (int c = 0; c < f.ncols; ++c) {
                int p = c == 0 ? +1 : f.pattern[c - 1];
                double base = p > 0 ? x : (p < 0 ? 1.0 - x : 0.5);
                double v = base * (c == 0 ? 1.0 : 0.9) + (rng && c > 0 && p != 0 ? 0.0 : 0.0);
                if (rng && t > 0) v = v * (1.0 - 0.01 * t);      // tables of different regions differ
                if (r == 0 && c > 0 && p > 0) v = 0.0;            // curves start at zero where they increase
                s << " " << gdeck::fmtd(v);
            }
            s << "\n";
        }
        s << "/\n";
    }
    return s.str();
}

static std::string dimsPrelude(int nts, int ntp, int neq, int nte, int ntm, int ntr, int nia) {
    std::ostringstream s;
    s << "RUNSPEC\nDIMENS\n 2 2 2 /\nOIL\nGAS\nWATER\nTABDIMS\n " << nts << " " << ntp << " 20 20 /\nEQLDIMS\n " << neq << " /\n";
    s << "ENDSCALE\n 2* " << nte << " /\nMISCIBLE\n " << ntm << " /\nROCKCOMP\n 'REVERS' " << ntr << " /\nAQUDIMS\n 4* " << nia + 1 << " 10 /\nPROPS\n";
    return s.str();
}

static int dimOf(const TableFamily& f, int nts, int ntp, int neq, int nte, int ntm, int ntr, int nia) {
    if (f.dimsKw == "TABDIMS") return f.dimsItem == "NTSFUN" ? nts : (f.dimsItem == "NTPVT" ? ntp : 0);
    if (f.dimsKw == "EQLDIMS") return f.dimsItem == "NTEQUL" ? neq : 0;
    if (f.dimsKw == "ENDSCALE") return nte;
    if (f.dimsKw == "MISCIBLE") return ntm;
    if (f.dimsKw == "ROCKCOMP") return ntr;
    if (f.dimsKw == "AQUDIMS") return nia;
    return 0;
}

// Which simple-table keywords of the tree under test can be given acceptable data: for every keyword whose single record
// is one ALL-size floating point item sized by one of the dims keywords above, the column patterns are tried in a fixed order
// against TableManager(deck) and the first accepted one is kept (deterministic function of the tree).
static std::vector<TableFamily> discoverFamilies(Parser& parser, vh::Reporter& rep) {
    std::vector<TableFamily> fams;
    gkw::Catalog cat(parser);
    for (const auto& name : cat.names) {
        const auto& kw = parser.getParserKeywordFromDeckName(name);
        if (kw.getSizeType() != OTHER_KEYWORD_IN_DECK || std::distance(kw.begin(), kw.end()) != 1) continue;
        const auto& rec = kw.getRecord(0);
        if (rec.size() != 1) continue;
        const auto& it = rec.get(0);
        if (it.sizeType() != ParserItem::item_size::ALL || it.dataType() != type_tag::fdouble) continue;
        TableFamily f; f.kw = name; f.dimsKw = kw.getKeywordSize().keyword(); f.dimsItem = kw.getKeywordSize().item(); f.shift = kw.getKeywordSize().size_shift();
        f.ncols = (int)it.dimensions().size();
        if (f.ncols < 2 || f.ncols > 9) continue;
        if (dimOf(f, 1, 1, 1, 1, 1, 1, 1) == 0) continue;
        // enumerate patterns in a fixed order: all increasing, all decreasing, then mixed (base 3 counter)
        int npat = 1; for (int c = 1; c < f.ncols; ++c) npat *= 3;
        for (int code = 0; code < npat && code < 243 && !f.usable; ++code) {
            f.pattern.clear();
            int q = code;
            for (int c = 1; c < f.ncols; ++c) { static const int v[3] = {+1, -1, 0}; f.pattern.push_back(v[q % 3]); q /= 3; }
            std::string deck = dimsPrelude(1, 1, 1, 1, 1, 1, 1) + tableText(f, 1, 3, nullptr);
            try { ErrorGuard eg; ParseContext pc; Deck d = parser.parseString(deck, pc, eg); TableManager tm(d); if (tm.hasTables(f.kw) && tm.getTables(f.kw).size() == 1) f.usable = true; }
            catch (const std::exception&) {}
        }
        if (f.usable) fams.push_back(f);
        else rep.cover("table_family_not_generatable", name);
    }
    return fams;
}

static std::string queryTables(const TableManager& tm, const std::vector<TableFamily>& fams) {
    std::ostringstream o;
    for (const auto& f : fams) {
        if (!tm.hasTables(f.kw)) continue;
        const auto& tc = tm.getTables(f.kw);
        o << f.kw << " max=" << tc.max() << " size=" << tc.size() << ":";
        for (size_t t = 0; t < tc.max(); ++t) {
            try { const auto& tb = tc.getTable(t); for (size_t c = 0; c < tb.numColumns(); ++c) { const auto& col = tb.getColumn(c); o << col.name() << "["; for (size_t r = 0; r < col.size(); ++r) o << hexd(col[r]) << (col.defaultApplied(r) ? "d" : "") << ","; o << "]"; } o << ";"; }
            catch (const std::exception& e) { o << "throws;"; }
        }
        o << "\n";
    }
    if (tm.hasTables("ROCKTAB")) { const auto& tc = tm.getRocktabTables(); o << "ROCKTAB max=" << tc.max() << " size=" << tc.size(); for (size_t t = 0; t < tc.size(); ++t) { const auto& rt = tc.getTable<RocktabTable>(t); o << " n=" << rt.numRows() << " p0=" << hexd(rt.getPressureColumn()[0]) << " pv0=" << hexd(rt.getPoreVolumeMultiplierColumn()[0]) << " tr0=" << hexd(rt.getTransmissibilityMultiplierColumn()[0]); } o << "\n"; }
    if (tm.hasTables("PLYSHLOG")) { const auto& tc = tm.getPlyshlogTables(); o << "PLYSHLOG max=" << tc.max() << " size=" << tc.size(); for (size_t t = 0; t < tc.max(); ++t) { try { const auto& pt = tc.getTable<PlyshlogTable>(t); o << " ref=" << hexd(pt.getRefPolymerConcentration()) << " n=" << pt.numRows() << " hasSal=" << pt.hasRefSalinity() << " hasT=" << pt.hasRefTemperature(); } catch (const std::exception&) { o << " throws"; } } o << "\n"; }
    o << "pvtw=" << tm.getPvtwTable().size() << " density=" << tm.getDensityTable().size() << " rock=" << tm.getRockTable().size() << " pvto=" << tm.getPvtoTables().size() << " pvtg=" << tm.getPvtgTables().size()
      << " tabdims=" << tm.getTabdims().getNumSatTables() << "," << tm.getTabdims().getNumPVTTables() << " eqldims=" << tm.getEqldims().getNumEquilRegions() << " rtemp=" << hexd(tm.rtemp()) << "\n";
    return o.str();
}

static std::vector<std::string> shippedDecks(const std::string& repo) {
    std::vector<std::string> v;
    for (auto& e : fs::directory_iterator(repo + "/tests")) if (e.is_regular_file() && e.path().extension() == ".DATA") v.push_back(e.path().string());
    std::sort(v.begin(), v.end());
    return v;
}

int main(int argc, char** argv) {
    vh::Args args = vh::parse_args(argc, argv);
    vh::Reporter rep(args, "C11");
    Parser parser;
    auto python = std::make_shared<Python>();
    const std::string mode = args.get("mode", "gen");
    const std::string repo = getenv("VERIF_REPO") ? getenv("VERIF_REPO") : "/repo";
    auto decks = mode == "shipped" ? shippedDecks(repo) : std::vector<std::string>{};
    std::vector<TableFamily> fams;
    if (mode == "tables") {
        fams = discoverFamilies(parser, rep);
        rep.count("table_families_generatable", args.shard == 0 ? (long)fams.size() : 0);
        if (fams.empty()) { fprintf(stderr, "no table family could be generated\n"); return 2; }
    }
    rep.run_cases([&](long idx, Rng& rng) {
        if (mode == "tables") {
            int nts = 1 + (int)rng.below(3), ntp = 1 + (int)rng.below(3), neq = 1 + (int)rng.below(3), nte = 1 + (int)rng.below(2), ntm = 1 + (int)rng.below(2), ntr = 1 + (int)rng.below(3), nia = 1 + (int)rng.below(2);
            std::string deck = dimsPrelude(nts, ntp, neq, nte, ntm, ntr, nia);
            int nf = 3 + (int)rng.below(10);
            std::set<std::string> used;
            for (int q = 0; q < nf; ++q) {
                const auto& f = fams[rng.below(fams.size())];
                if (!used.insert(f.kw).second) continue;
                int n = dimOf(f, nts, ntp, neq, nte, ntm, ntr, nia);
                deck += tableText(f, n, 2 + (int)rng.below(4), &rng);
                rep.cover("table_family", f.kw);
            }
            // the two containers TableManager::serializeOp treats specially
            if (rng.chance(0.5) && !used.count("ROCKTAB")) { deck += "ROCKTAB\n"; for (int t = 0; t < ntr; ++t) deck += " 100 0.98 0.97\n 200 1.0 1.0\n " + gdeck::fmtd(300 + 10 * t) + " 1.02 1.03 /\n"; rep.cover("table_family", "ROCKTAB(hand)"); }
            if (rng.chance(0.5)) { deck += "PLYSHLOG\n " + gdeck::fmtd(1 + rng.below(3)) + " /\n 1e-7 1.0\n 1.0 1.2\n 1000 2.4 /\n"; rep.cover("table_family", "PLYSHLOG(first region only)"); }
            if (rng.chance(0.5)) { deck += "PVTW\n"; for (int t = 0; t < ntp; ++t) deck += " 277 1.03 4e-5 0.3 0 /\n"; deck += "DENSITY\n"; for (int t = 0; t < ntp; ++t) deck += " 860 1033 0.85 /\n"; }
            bool built = false;
            try {
                ErrorGuard eg; ParseContext pc;
                Deck d = parser.parseString(deck, pc, eg);
                TableManager tm(d);
                built = true;
                rep.count("region_counts_above_one", (nts > 1) + (ntp > 1) + (neq > 1) + (ntr > 1));
                roundTrip(rep, "TableManager", tm, [&](const TableManager& t) { return queryTables(t, fams); }, deck);
            } catch (const std::exception& e) {
                if (!built) { rep.count("base_refused"); if (args.replaying) fprintf(stderr, "REFUSED %s\n%s\n", e.what(), deck.c_str()); }
                else rep.violation("exception-during-roundtrip:" + g_phase, std::string("exception during ") + g_phase + ": " + e.what(), deck);
            }
            rep.case_done(vh::fnv(deck), built);
            if (idx < 1) rep.sample(deck.substr(0, 1500));
            return;
        }
        if (mode == "dyn") { dynamicStates(rep, rng); rep.case_done(rng.u64(), true); if (idx < 1) rep.sample("random SummaryState / UDQState / WellTestState / RestartValue filled through update_*(), add_define/add_assign, close_well/close_completion, addExtra"); return; }
        bool built = false;
        std::string witness;
        try {
            if (mode == "shipped") {
                if (decks.empty()) return;
                const std::string& path = decks[idx % decks.size()];
                std::string raw = vh::read_file(path);
                if (raw.find("PYACTION") != std::string::npos || raw.find("PYINPUT") != std::string::npos || raw.size() > 3000000) { rep.count("skipped"); return; }
                ParseContext pc; pc.update(InputErrorAction::IGNORE); ErrorGuard eg;
                Deck deck = parser.parseFile(path, pc, eg); eg.clear();
                witness = "shipped deck " + path;
                rep.cover("deck", fs::path(path).filename().string());
                deckObjects(rep, parser, python, deck, pc, witness, built);
            } else {
                gdeck::Opts o;
                o.exoticRunspec = rng.chance(0.6);     // optional phases, option flags, report mnemonics: the rarely set bits
                gdeck::Generator gen(rng, o);
                gdeck::Model m = gen.generate();
                if (!m.runspecExtra.empty() || !m.solutionExtra.empty()) rep.count("models_with_optional_phases_or_flags");
                m.summarySection = "WOPT\n/\nGOPT\n/\nFWCT\nWWCT\n/\nROIP\n/\nBPR\n 1 1 1 /\n/\n" + (m.wells.empty() ? std::string() : "COPR\n '" + m.wells[0].name + "' /\n/\n");
                witness = m.text();
                for (auto& st : m.steps) for (auto& k : st.kws) rep.cover("schedule_keyword", k.name);
                ParseContext pc; ErrorGuard eg;
                Deck deck = parser.parseString(witness, pc, eg);
                deckObjects(rep, parser, python, deck, pc, witness, built);
            }
        } catch (const std::exception& e) {
            if (!built) { rep.count("base_refused"); return; }
            rep.violation("exception-during-roundtrip:" + g_phase, std::string("exception during ") + g_phase + ": " + e.what(), witness);
        }
        rep.case_done(vh::fnv(witness), built);
        if (idx < 1) rep.sample(witness.substr(0, 1200));
    });
    rep.finish();
    return 0;
}
