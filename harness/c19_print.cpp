// C19 — a Deck written as text parses back to the same Deck.
//
// Relational monitor: d = parse(T); t = print(d); d2 = parse(t).  d2 must have the same keywords in the same
// order with the same record/item structure, identical integers / strings / default flags and doubles equal
// to the printed precision (10 significant digits); and print(d2) == t (fixpoint).
// T comes from the reflective keyword grammar (mode=gen) or from the shipped decks (mode=shipped).
#include "common/gkw.hpp"
#include "common/gdeck.hpp"
#include <filesystem>

using namespace gkw;
namespace fs = std::filesystem;

static const double PRINT_TOL = 1.0e-9;   // operator<<(Deck) prints 10 significant digits -> relative error <= 5e-10

static bool dclose(double a, double b) {
    if (a == b) return true;
    if (std::isnan(a) || std::isnan(b)) return std::isnan(a) && std::isnan(b);
    if (!std::isfinite(a) || !std::isfinite(b)) return a == b;
    return std::fabs(a - b) <= PRINT_TOL * std::max(std::fabs(a), std::fabs(b));
}

// first difference between two decks ("" if none); `cls` receives a short class of the difference
static size_t g_firstDiffKw = 0;   // index of the keyword holding the first difference found by compareDecks
static std::string compareDecks(const Deck& a, const Deck& b, std::string& cls) {
    std::ostringstream o;
    size_t na = a.size(), nb = b.size();
    for (size_t k = 0; k < std::min(na, nb); ++k) {
        g_firstDiffKw = k;
        const auto& ka = a[k]; const auto& kb = b[k];
        if (ka.name() != kb.name()) { cls = "keyword-sequence"; o << "keyword #" << k << ": " << ka.name() << " vs " << kb.name(); return o.str(); }
        if (ka.size() != kb.size()) { cls = "record-count"; o << ka.name() << ": " << ka.size() << " records vs " << kb.size(); return o.str(); }
        for (size_t r = 0; r < ka.size(); ++r) {
            const auto& ra = ka.getRecord(r); const auto& rb = kb.getRecord(r);
            if (ra.size() != rb.size()) { cls = "item-count"; o << ka.name() << " record " << r << ": " << ra.size() << " items vs " << rb.size(); return o.str(); }
            for (size_t i = 0; i < ra.size(); ++i) {
                const auto& ia = ra.getItem(i); const auto& ib = rb.getItem(i);
                std::string where = ka.name() + " record " + std::to_string(r) + " item " + ia.name();
                if (ia.name() != ib.name() || ia.getType() != ib.getType()) { cls = "item-type"; return where + ": name/type differs"; }
                if (ia.data_size() != ib.data_size()) { cls = "item-size"; o << where << ": " << ia.data_size() << " values vs " << ib.data_size(); return o.str(); }
                for (size_t v = 0; v < ia.data_size(); ++v) {
                    if (ia.defaultApplied(v) != ib.defaultApplied(v)) { cls = "default-flag"; o << where << "[" << v << "]: defaulted " << ia.defaultApplied(v) << " vs " << ib.defaultApplied(v); return o.str(); }
                    if (ia.hasValue(v) != ib.hasValue(v)) { cls = "has-value"; o << where << "[" << v << "]: hasValue differs"; return o.str(); }
                    if (!ia.hasValue(v)) continue;
                    switch (ia.getType()) {
                    case type_tag::integer: if (ia.get<int>(v) != ib.get<int>(v)) { cls = "int-value"; o << where << "[" << v << "]: " << ia.get<int>(v) << " vs " << ib.get<int>(v); return o.str(); } break;
                    case type_tag::fdouble: if (!dclose(ia.get<double>(v), ib.get<double>(v))) { cls = "double-value"; o.precision(17); o << where << "[" << v << "]: " << ia.get<double>(v) << " vs " << ib.get<double>(v); return o.str(); } break;
                    case type_tag::string: if (ia.get<std::string>(v) != ib.get<std::string>(v)) { cls = "string-value"; o << where << "[" << v << "]: '" << ia.get<std::string>(v) << "' vs '" << ib.get<std::string>(v) << "'"; return o.str(); } break;
                    case type_tag::raw_string: if (!(ia.get<RawString>(v) == ib.get<RawString>(v))) { cls = "rawstring-value"; o << where << "[" << v << "]: '" << ia.get<RawString>(v) << "' vs '" << ib.get<RawString>(v) << "'"; return o.str(); } break;
                    case type_tag::uda: {
                        auto ua = ia.get<UDAValue>(v), ub = ib.get<UDAValue>(v);
                        bool same = ua.is<double>() == ub.is<double>();
                        if (same && ua.is<double>()) same = dclose(ua.get<double>(), ub.get<double>());
                        else if (same && ua.is<std::string>()) same = ub.is<std::string>() && ua.get<std::string>() == ub.get<std::string>();
                        if (!same) { cls = "uda-value"; o << where << "[" << v << "]: UDA value differs"; return o.str(); }
                        break; }
                    default: break;
                    }
                }
                // SI data, where every value is present
                if (ia.getType() == type_tag::fdouble && ia.data_size() > 0) {
                    bool all = true;
                    for (size_t v = 0; v < ia.data_size(); ++v) all = all && ia.hasValue(v);
                    if (all) {
                        std::vector<double> sa, sb; bool ta = false, tb = false;
                        try { sa = ia.getSIDoubleData(); } catch (const std::exception&) { ta = true; }
                        try { sb = ib.getSIDoubleData(); } catch (const std::exception&) { tb = true; }
                        if (ta != tb) { cls = "si-data"; return where + ": SI data available on one side only"; }
                        for (size_t v = 0; !ta && v < sa.size(); ++v) if (!dclose(sa[v], sb[v])) { cls = "si-data"; o.precision(17); o << where << "[" << v << "]: SI " << sa[v] << " vs " << sb[v]; return o.str(); }
                    }
                }
            }
        }
    }
    if (na != nb) { cls = "keyword-count"; o << na << " keywords vs " << nb; return o.str(); }
    return "";
}

struct Env {
    Parser parser;
    ParseContext strict = strictContext();
    Catalog cat{parser};
    std::string scratch;
};

static std::string printDeck(const Deck& d) { std::ostringstream s; s << d; return s.str(); }

// Classify the shapes of the input that meet the known DeckOutput defect ("trailing defaults of a record are not written"),
// so that this defect gets specific keys and everything else keeps its own:
//   all-default-record               a record with value slots, all of them defaulted (printed as a lone " /")
//   trailing-defaults-in-array-item  an ALL-size item whose last element(s) are defaulted, with only defaults after it
static std::string shapeOf(const Parser& parser, const Deck& d, size_t onlyKw = std::string::npos) {
    bool allDefaultRecord = false, trailingDefaultInArray = false;
    for (size_t kwIdx = 0; kwIdx < d.size(); ++kwIdx) {
        if (onlyKw != std::string::npos && kwIdx != onlyKw) continue;
        const auto& kw = d[kwIdx];
        const ParserKeyword* pk = nullptr;
        if (parser.isRecognizedKeyword(kw.name())) pk = &parser.getParserKeywordFromDeckName(kw.name());
        const size_t nprec = pk ? (size_t)std::distance(pk->begin(), pk->end()) : 0;
        for (size_t r = 0; r < kw.size(); ++r) {
            const auto& rec = kw.getRecord(r);
            bool anyValue = false; size_t nvals = 0;
            for (const auto& it : rec) { for (size_t v = 0; v < it.data_size(); ++v) { ++nvals; if (!it.defaultApplied(v)) anyValue = true; } }
            if (!anyValue && nvals > 0) allDefaultRecord = true;
            for (size_t i = 0; i < rec.size(); ++i) {
                const auto& it = rec.getItem(i);
                if (it.data_size() < 1 || !it.defaultApplied(it.data_size() - 1)) continue;
                bool isArray = it.data_size() > 1;
                if (!isArray && pk && nprec > 0) {
                    // which ParserRecord produced this DeckRecord is not stored: accept a match in any of the keyword's records
                    for (size_t q = 0; q < nprec; ++q) { const auto& pr = pk->getRecord(q); if (pr.hasItem(it.name()) && pr.get(it.name()).sizeType() == ParserItem::item_size::ALL) isArray = true; }
                }
                if (!isArray) continue;
                bool restDefault = true;
                for (size_t j = i + 1; j < rec.size(); ++j) { const auto& jt = rec.getItem(j); for (size_t v = 0; v < jt.data_size(); ++v) if (!jt.defaultApplied(v)) restDefault = false; }
                if (restDefault) trailingDefaultInArray = true;
            }
        }
    }
    if (allDefaultRecord && trailingDefaultInArray) return "all-default-record+trailing-defaults-in-array-item";
    if (allDefaultRecord) return "all-default-record";
    if (trailingDefaultInArray) return "trailing-defaults-in-array-item";
    return "";
}

// read the SI data of every dimensioned item, as any consumer of the Deck (EclipseState, Schedule...) does; DeckItem converts its
// storage in place when asked, and a Deck must print the same text before and after
static long touchSI(const Deck& d) {
    long n = 0;
    for (const auto& kw : d) for (const auto& rec : kw) for (const auto& it : rec) {
        if (it.getType() == type_tag::fdouble) {
            bool all = it.data_size() > 0;
            for (size_t v = 0; v < it.data_size(); ++v) all = all && it.hasValue(v);
            if (all) { try { (void)it.getSIDoubleData(); ++n; } catch (const std::exception&) {} }
        } else if (it.getType() == type_tag::uda) {
            for (size_t v = 0; v < it.data_size(); ++v) if (it.hasValue(v)) { try { (void)it.get<UDAValue>(v).getSI(); ++n; } catch (const std::exception&) {} }
        }
    }
    return n;
}
static bool g_touchSI = false;

// token-wise: identical, or both numbers equal to the printed precision.  DeckItem converts raw -> SI -> raw in place; for
// dimensions with an offset (temperature) that costs up to ~1e-13 absolute (1e-25 degC comes back as 0), which is rounding,
// not a change of the Deck.
static bool sameTextUpToRounding(const std::string& a, const std::string& b) {
    if (a == b) return true;
    std::istringstream ia(a), ib(b);
    std::string ta, tb;
    while (true) {
        bool ga = (bool)(ia >> ta), gb = (bool)(ib >> tb);
        if (ga != gb) return false;
        if (!ga) return true;
        if (ta == tb) continue;
        char *ea = nullptr, *eb = nullptr;
        double va = strtod(ta.c_str(), &ea), vb = strtod(tb.c_str(), &eb);
        if (*ea != 0 || *eb != 0 || ea == ta.c_str() || eb == tb.c_str()) return false;
        if (std::fabs(va - vb) > 1.0e-9 * std::max(std::fabs(va), std::fabs(vb)) + 1.0e-12) return false;
    }
}

static void checkRoundTrip(vh::Reporter& rep, Env& env, const ParseContext& pc, const Deck& d, const std::string& origin, const std::string& inputText,
                           const DeckT* structure, const std::string& clsOfLast) {
    std::string tBefore;
    if (g_touchSI) {
        tBefore = printDeck(d);
        rep.count("items_read_in_SI_before_printing", touchSI(d));
    }
    std::string t1 = printDeck(d);
    if (g_touchSI) {
        rep.count("print_before_vs_after_SI_access");
        if (!sameTextUpToRounding(tBefore, t1)) {
            rep.violation("print-changes-after-SI-access", "the text printed for a Deck changes once its SI data has been read",
                          "origin: " + origin + "\n--- input text ---\n" + inputText + "--- printed before SI access ---\n" + tBefore + "--- printed after SI access ---\n" + t1);
            return;
        }
    }
    Deck d2; std::string err; bool threw = false;
    try { ErrorGuard eg; d2 = env.parser.parseString(t1, pc, eg); eg.clear(); }
    catch (const std::exception& e) { threw = true; err = e.what(); }
    rep.count("round_trips");
    std::string witness = "origin: " + origin + "\n--- input text ---\n" + inputText + "--- printed ---\n" + t1;
    (void)structure;
    std::string shape = shapeOf(env.parser, d);
    std::string suffix = shape.empty() ? clsOfLast : shape;
    if (threw) {
        // "... line N": the keyword of the printed text that holds line N; the shape is taken from that keyword when it can be found
        size_t lp = err.find(" line ");
        if (lp != std::string::npos) {
            const long lineNo = atol(err.c_str() + lp + 6);
            std::istringstream is(t1); std::string ln; long n = 0; long kwSeen = -1;
            while (std::getline(is, ln) && ++n <= lineNo) if (!ln.empty() && std::isupper((unsigned char)ln[0]) && ln.find(' ') == std::string::npos) ++kwSeen;
            if (kwSeen >= 0 && (size_t)kwSeen < d.size() && lineNo > 0) { shape = shapeOf(env.parser, d, (size_t)kwSeen); suffix = shape.empty() ? clsOfLast : shape; }
        }
        rep.violation("printed-deck-refused:" + suffix, "printed text of a parsed deck is refused by the parser: " + err.substr(0, 300), witness + "--- exception ---\n" + err + "\n");
        return;
    }
    // print d2 BEFORE the comparison touches SI data: DeckItem converts raw <-> SI in place, and for dimensions with an
    // offset (temperature) the round trip raw -> SI -> raw of a tiny value such as 1e-25 loses it (observer effect, not C19)
    std::string t2 = printDeck(d2);
    std::string cls;
    std::string diff = compareDecks(d, d2, cls);
    if (!diff.empty()) {
        // the known writer defect (dropped trailing defaults) shows at the keyword that has one of its two shapes: a difference
        // located in another keyword is something else and keeps its own key
        shape = shapeOf(env.parser, d, std::min(g_firstDiffKw, d.size() - 1));
        suffix = shape.empty() ? clsOfLast : shape;
        rep.violation(shape.empty() ? "print-parse-differs:" + cls + ":" + suffix : "print-parse-differs:" + shape, "parse(print(d)) differs from d: " + diff, witness + "--- first difference ---\n" + diff + "\n");
        return;
    }
    rep.count("fixpoint_checks");
    if (t2 != t1) rep.violation("print-not-fixpoint:" + suffix, "print(parse(print(d))) differs from print(d)", witness + "--- printed again ---\n" + t2);
}

static std::vector<std::string> shippedDecks() {
    std::vector<std::string> v;
    const std::string root = std::string(getenv("VERIF_REPO") ? getenv("VERIF_REPO") : "/repo") + "/tests";
    for (auto& e : fs::recursive_directory_iterator(root)) {
        if (!e.is_regular_file()) continue;
        auto ext = e.path().extension().string();
        if (ext == ".DATA" || ext == ".data") v.push_back(e.path().string());
    }
    std::sort(v.begin(), v.end());
    return v;
}

int main(int argc, char** argv) {
    vh::Args args = vh::parse_args(argc, argv);
    vh::Reporter rep(args, "C19");
    Env env;
    env.scratch = vh::scratch_dir(args);
    const std::string mode = args.get("mode", "gen");
    if (mode == "shipped") {
        auto decks = shippedDecks();
        rep.count("shipped_decks_found", args.shard == 0 ? (long)decks.size() : 0);
        ParseContext pc; pc.update(InputErrorAction::IGNORE);
        rep.run_cases([&](long idx, Rng&) {
            if (idx >= (long)decks.size()) return;
            const std::string& path = decks[idx];
            Deck d;
            try { ErrorGuard eg; d = env.parser.parseFile(path, pc, eg); eg.clear(); }
            catch (const std::exception&) { rep.count("base_refused"); return; }
            g_touchSI = (idx % 2) == 0;
            rep.cover("deck", fs::path(path).filename().string());
            for (const auto& kw : d) rep.cover("keyword", kw.name());
            rep.case_done(vh::fnv(path), d.size() > 0);
            if (idx < 1) rep.sample("shipped deck " + path + " (" + std::to_string(d.size()) + " keywords)");
            checkRoundTrip(rep, env, pc, d, path, "(file " + path + ")\n", nullptr, "shipped");
        });
        rep.finish();
        return 0;
    }
    if (mode == "models") {
        // complete generated models (grid arrays, tables, ~70 schedule keyword kinds, UDQ expressions with '/', ACTIONX blocks, TSTEP):
        // the whole deck goes through ONE writer object, so state the writer keeps between keywords (line wrapping, pending
        // defaults) meets records whose layout matters (raw-string records end at the last slash of a line)
        rep.run_cases([&](long idx, Rng& rng) {
            gdeck::Opts o;
            o.exoticRunspec = rng.chance(0.5);
            gdeck::Generator gen(rng, o);
            const std::string base = gen.generate().text();
            Deck d;
            try { ErrorGuard eg; d = env.parser.parseString(base, env.strict, eg); }
            catch (const std::exception&) { rep.count("base_refused"); return; }
            g_touchSI = rng.chance(0.5);
            for (const auto& kw : d) rep.cover("keyword", kw.name());
            rep.case_done(vh::fnv(base), d.size() > 10);
            if (idx < 1) rep.sample("generated model, " + std::to_string(d.size()) + " keywords");
            checkRoundTrip(rep, env, env.strict, d, "generated model", base, nullptr, "model");
        });
        rep.finish();
        return 0;
    }
    const long ncat = (long)env.cat.names.size();
    const long sweep = args.geti("sweep", 4);
    rep.run_cases([&](long idx, Rng& rng) {
        GenOpts g;
        g.pDefault = 0.35;
        // the two shapes that meet the known DeckOutput defect (dropped trailing defaults) are confined to 15% of the cases,
        // so that any other defect is still seen, under its own key, in the remaining 85%
        g.allowAllDefaultRecord = g.allowTrailingDefaultInArray = rng.chance(0.15);
        g_touchSI = rng.chance(0.5);
        rep.count(g.allowAllDefaultRecord ? "cases_with_default_shapes_enabled" : "cases_without_default_shapes");
        DeckT deck;
        bool multi = idx >= ncat * sweep;
        // hand-written special shapes first (TITLE, code keyword)
        if (!multi) {
            Kw k; std::vector<Kw> prelude;
            const std::string& name = env.cat.names[idx % ncat];
            if (!genKeyword(env.parser, name, rng, g, k, rng.chance(0.5) ? &prelude : nullptr)) { rep.count("not_generatable"); return; }
            for (auto& p : prelude) deck.kws.push_back(p);
            deck.kws.push_back(k);
        } else {
            int n = 2 + (int)rng.below(5);
            if (rng.chance(0.2)) { Kw t; t.name = "TITLE"; t.cls = "title"; t.verbatim = true; t.text = std::string("TITLE\n") + (rng.chance(0.5) ? "  A title with 'quotes' and -- dashes / slash\n" : "Simple title 42\n"); deck.kws.push_back(t); }
            for (int i = 0; i < n; ++i) {
                Kw k; std::vector<Kw> prelude;
                const std::string& name = env.cat.names[rng.below(ncat)];
                if (!genKeyword(env.parser, name, rng, g, k, &prelude)) continue;
                bool dup = false;
                for (auto& p : prelude) for (auto& e : deck.kws) if (e.name == p.name) dup = true;
                if (dup) continue;
                for (auto& p : prelude) deck.kws.push_back(p);
                deck.kws.push_back(k);
            }
            if (deck.kws.empty()) { rep.count("not_generatable"); return; }
        }
        std::string base = renderCanon(deck);
        Deck d;
        try { ErrorGuard eg; d = env.parser.parseString(base, env.strict, eg); }
        catch (const std::exception&) { rep.count("base_refused"); rep.cover("base_refused_class", deck.kws.back().cls); return; }
        bool hasRecord = false;
        for (auto& k : deck.kws) { rep.cover("size_class", k.cls); if (!k.recs.empty() || k.verbatim) hasRecord = true; }
        rep.cover("keyword", deck.kws.back().name);
        rep.case_done(vh::fnv(base), hasRecord);
        if (idx < 2 || (multi && idx < ncat * sweep + 1)) rep.sample("--- input ---\n" + base + "--- printed ---\n" + printDeck(d));
        checkRoundTrip(rep, env, env.strict, d, "generated", base, &deck, deck.kws.back().cls);
    });
    rep.finish();
    return 0;
}
