// C18 — ACTIONX conditions evaluate correctly; triggering respects count and wait limits.
//
// One program, two monitors (argument part=cond | part=trigger):
//
//  part=cond     Reference-model monitor.  A random Boolean condition (<= 8 comparisons, parenthesis
//                nesting <= 3) over field / group / well / date quantities is rendered to ACTIONX condition
//                tokens.  The real library evaluates it twice -- through the deck route
//                (Parser -> parseActionX(keyword, Actdims, start) -> ActionX::eval(Context)) and through the
//                token route (ActionX(name, max_run, min_wait, start, conditions, tokens).eval(Context)) --
//                on a random summary state (SummaryState + WListManager).  An interpreter written here from
//                the property statement (own tokeniser/precedence parser, own wildcard matcher, own month
//                table, own set algebra: "no set" for scalar or false sub-conditions) evaluates the same token
//                list on a plain model of the summary state.  Truth value and matching-well set must agree.
//
//  part=trigger  Trace checker.  Actions::pending / ActionX::eval / State::add_run are driven over simulated
//                time grids in the order a simulator's action handler uses (pending(state, t) -> eval ->
//                if satisfied: run and add_run(action, t, result)); every run is recorded by the harness and
//                the recorded trace -- not the library's own bookkeeping -- is checked against the three
//                clauses of the statement: never more than max_run runs, never sooner than min_wait after the
//                previous run, never before the start time.  The first 576 case indices enumerate the
//                run/wait state machine exhaustively (see enumerated configuration below), later indices are
//                random simulations (several actions, redefinition, fractional waits, unit systems).
#include <opm/input/eclipse/Parser/Parser.hpp>
#include <opm/input/eclipse/Deck/Deck.hpp>
#include <opm/input/eclipse/Deck/DeckKeyword.hpp>
#include <opm/input/eclipse/Schedule/Action/ActionX.hpp>
#include <opm/input/eclipse/Schedule/Action/Actions.hpp>
#include <opm/input/eclipse/Schedule/Action/Condition.hpp>
#include <opm/input/eclipse/Schedule/Action/ActionContext.hpp>
#include <opm/input/eclipse/Schedule/Action/ActionResult.hpp>
#include <opm/input/eclipse/Schedule/Action/State.hpp>
#include <opm/input/eclipse/Schedule/Action/Actdims.hpp>
#include <opm/input/eclipse/Schedule/SummaryState.hpp>
#include <opm/input/eclipse/Schedule/Well/WListManager.hpp>
#include <opm/common/utility/TimeService.hpp>
#include "common/vh.hpp"
#include <algorithm>
#include <ctime>
#include <memory>
#include <optional>

using vh::Rng;

// =================================================================================================
// Model of the summary state
// =================================================================================================
struct World {
    std::vector<std::string> wells;                                  // every well of the model
    std::map<std::string, std::map<std::string, double>> wv;         // well quantity -> well -> value (only where defined)
    std::map<std::string, double> sc;                                // scalar keys: FOPR, GOPR:G1, WOPR:W1, DAY, MNTH, YEAR
    std::map<std::string, std::map<std::string, double>> gv;         // group quantity -> group -> value
    std::map<std::string, std::vector<std::string>> lists;           // "*L1" -> wells
    bool dates_in_context = false;                                   // DAY/MNTH/YEAR given through Context::add instead of SummaryState

    std::string text() const {
        std::ostringstream o; o.precision(17);
        o << "wells:";
        for (auto& w : wells) o << " " << w;
        o << "\n";
        for (auto& q : wv) { o << "  " << q.first << ":"; for (auto& e : q.second) o << " " << e.first << "=" << e.second; o << "\n"; }
        for (auto& q : gv) { o << "  " << q.first << ":"; for (auto& e : q.second) o << " " << e.first << "=" << e.second; o << "\n"; }
        o << "  scalars:";
        for (auto& e : sc) if (e.first.find(':') == std::string::npos) o << " " << e.first << "=" << e.second;
        o << (dates_in_context ? "  (dates via Context::add)" : "  (dates via SummaryState)") << "\n";
        for (auto& l : lists) { o << "  list " << l.first << ":"; for (auto& w : l.second) o << " " << w; o << "\n"; }
        return o.str();
    }
};

static const char* WELL_POOL[] = {"W1", "W2", "W3", "W10", "P1", "P2", "PROD1", "PA_1", "I1", "I2", "INJ1", "OP_1"};
static const char* WQ[] = {"WOPR", "WWCT", "WGOR", "WBHP", "WOPT"};
static const char* GQ[] = {"GOPR", "GWCT", "GGOR"};
static const char* FQ[] = {"FOPR", "FWCT", "FGOR", "FOPT", "FPR"};
static const char* GROUPS[] = {"G1", "G2", "PLAT"};
static const char* LIST_POOL[] = {"*L1", "*L2", "*PRD", "*INJ"};
static const char* WELL_PATTERNS[] = {"*", "*", "W*", "W*", "P*", "I*", "W1*", "P*1", "W?*", "OP_*", "X*", "\\*1", "\\*P*", "?1*"};
static const char* LIST_PATTERNS[] = {"*L*", "*P*", "*NOPE", "*?N*"};

static double randomValue(Rng& rng) {
    double v = (double)rng.below(10);
    if (rng.chance(0.15)) v += 0.5;
    if (rng.chance(0.05)) v = -v;
    if (rng.chance(0.05)) v *= 1000.0;
    return v;
}

static World genWorld(Rng& rng) {
    World w;
    std::vector<std::string> pool(std::begin(WELL_POOL), std::end(WELL_POOL));
    rng.shuffle(pool);
    int nw = 2 + (int)rng.below(6);
    w.wells.assign(pool.begin(), pool.begin() + nw);
    std::sort(w.wells.begin(), w.wells.end());
    std::vector<std::string> full;
    for (auto& well : w.wells) {
        // a "sparse" well lacks some quantities: a wildcard must then range over the wells that have the quantity
        bool sparse = rng.chance(0.15);
        bool lacking = false;
        for (auto q : WQ) {
            if (sparse && rng.chance(0.5)) { lacking = true; continue; }
            double v = randomValue(rng);
            w.wv[q][well] = v;
            w.sc[std::string(q) + ":" + well] = v;
        }
        if (!lacking) full.push_back(well);
    }
    for (auto q : GQ) for (auto g : GROUPS) { double v = randomValue(rng); w.gv[q][g] = v; w.sc[std::string(q) + ":" + g] = v; }
    for (auto q : FQ) w.sc[q] = randomValue(rng);
    w.sc["DAY"] = (double)rng.range(1, 31);
    w.sc["MNTH"] = (double)rng.range(1, 12);
    w.sc["YEAR"] = (double)rng.range(2000, 2030);
    w.dates_in_context = rng.chance(0.5);
    int nl = (int)rng.below(4);
    for (int i = 0; i < nl; ++i) {
        std::vector<std::string> members;
        for (auto& well : full) if (rng.chance(0.5)) members.push_back(well);   // may be empty
        w.lists[LIST_POOL[i]] = members;
    }
    return w;
}

// the real objects built from the model
struct RealWorld {
    Opm::SummaryState st;
    Opm::WListManager wlm;
    std::unique_ptr<Opm::Action::Context> ctx;
    explicit RealWorld(const World& w) : st(Opm::TimeService::from_time_t(946684800), 0.0) {
        for (auto& q : w.wv) for (auto& e : q.second) st.update_well_var(e.first, q.first, e.second);
        for (auto& q : w.gv) for (auto& e : q.second) st.update_group_var(e.first, q.first, e.second);
        for (auto q : FQ) st.update(q, w.sc.at(q));
        if (!w.dates_in_context) for (auto d : {"DAY", "MNTH", "YEAR"}) st.update(d, w.sc.at(d));
        for (auto& l : w.lists) wlm.newList(l.first, l.second);
        ctx = std::make_unique<Opm::Action::Context>(st, wlm);
        if (w.dates_in_context) for (auto d : {"DAY", "MNTH", "YEAR"}) ctx->add(d, w.sc.at(d));
    }
};

// =================================================================================================
// Condition generator (tree -> tokens)
// =================================================================================================
static const char* OPS[6] = {">", "<", ">=", "<=", "=", "!="};
static const char* OPS_ALT[6] = {".GT.", ".LT.", ".GE.", ".LE.", ".EQ.", ".NE."};
static const char* MONTHS[] = {"JAN", "FEB", "MAR", "APR", "MAY", "JUN", "JUL", "JLY", "AUG", "SEP", "OCT", "NOV", "DEC"};

struct Tok { std::string text; std::string deck; };   // text = token as the condition parser receives it, deck = spelling in the deck

struct Leaf {
    std::string q; std::vector<Tok> args; int op; std::string opTok; Tok rhs; std::vector<Tok> rhsArgs;
    std::string lhsKind, rhsKind, pattern;
};
struct GNode { int kind = 0; /*0 comparison, 1 AND, 2 OR*/ std::vector<GNode> ch; Leaf leaf; };

static Tok plainTok(const std::string& s) { return Tok{s, s}; }
static Tok nameTok(const std::string& s, bool quote) { return Tok{s, quote ? "'" + s + "'" : s}; }
// random name from `names`, quoted in the deck with probability pq (draw order fixed: name, then quoting)
template <class V> static Tok pickName(Rng& rng, const V& names, double pq) {
    const std::string n = names[rng.below(std::size(names))];
    const bool quote = rng.chance(pq);
    return nameTok(n, quote);
}

static std::string numTok(double v, Rng& rng) {
    char b[64];
    const char* fmts[] = {"%.0f", "%.1f", "%.3f", "%g", "%e", "%.17g"};
    for (int t = 0; t < 4; ++t) {
        snprintf(b, sizeof b, fmts[rng.below(6)], v);
        if (strtod(b, nullptr) == v) return b;
    }
    snprintf(b, sizeof b, "%.17g", v);
    return b;
}

static std::vector<std::string> wellsHaving(const World& w, const std::string& q) {
    std::vector<std::string> have;
    auto i = w.wv.find(q);
    if (i != w.wv.end()) for (auto& e : i->second) have.push_back(e.first);
    return have;
}

static Leaf genLeaf(Rng& rng, const World& w) {
    Leaf l;
    l.op = (int)rng.below(6);
    l.opTok = rng.chance(0.06) ? OPS_ALT[l.op] : OPS[l.op];
    if (l.opTok[0] == '.' && rng.chance(0.5)) for (auto& c : l.opTok) c = (char)tolower(c);
    double r = rng.unit();
    bool date = false, month = false;
    if (r < 0.30) {                       // well quantity over a wildcard
        l.q = rng.pick(std::vector<std::string>(std::begin(WQ), std::end(WQ)));
        l.pattern = WELL_PATTERNS[rng.below(sizeof WELL_PATTERNS / sizeof *WELL_PATTERNS)];
        l.args.push_back(nameTok(l.pattern, true));
        l.lhsKind = "well-wildcard";
    } else if (r < 0.45) {                // well quantity of a named well (must have the quantity)
        l.q = rng.pick(std::vector<std::string>(std::begin(WQ), std::end(WQ)));
        std::vector<std::string> have = wellsHaving(w, l.q);
        if (have.empty()) { l.q = "FOPR"; l.lhsKind = "field"; }
        else { l.args.push_back(pickName(rng, have, 0.6)); l.lhsKind = "well-name"; }
    } else if (r < 0.60) {                // well quantity over a well list
        l.q = rng.pick(std::vector<std::string>(std::begin(WQ), std::end(WQ)));
        if (rng.chance(0.75)) {
            // mostly a list that exists (the model creates the first n of the pool), sometimes any name of the pool
            const bool existing = !w.lists.empty() && rng.chance(0.8);
            l.pattern = LIST_POOL[rng.below(existing ? w.lists.size() : 4)];
            l.lhsKind = w.lists.count(l.pattern) ? "well-list" : "well-list-missing";
        }
        else { l.pattern = LIST_PATTERNS[rng.below(4)]; l.lhsKind = "well-list-pattern"; }
        l.args.push_back(nameTok(l.pattern, true));
    } else if (r < 0.80) {
        l.q = FQ[rng.below(5)]; l.lhsKind = "field";
    } else if (r < 0.88) {
        l.q = GQ[rng.below(3)]; l.args.push_back(pickName(rng, GROUPS, 0.6)); l.lhsKind = "group";
    } else {
        const char* d[] = {"DAY", "MNTH", "YEAR"};
        l.q = d[rng.below(3)]; l.lhsKind = "date:" + l.q; date = true; month = l.q == "MNTH";
    }
    // right-hand side
    double rr = rng.unit();
    if (month && rr < 0.6) { l.rhs = plainTok(MONTHS[rng.below(13)]); l.rhsKind = "month-name"; }
    else if (date) {
        double v = l.q == "DAY" ? (double)rng.range(1, 31) : l.q == "MNTH" ? (double)rng.range(1, 12) : (double)rng.range(1999, 2031);
        if (rng.chance(0.4)) v = w.sc.at(l.q) + (double)rng.range(-1, 1);
        // A month number with a fraction is compared as its nearest integer (the documented meaning of MNTH, see ASTNode.cpp:
        // "MNTH = 10.8 holds in November").  Exact halves are left out: the rule does not say which way they go.
        if (month && rng.chance(0.35)) { static const double fr[] = {0.1, 0.2, 0.3, 0.4, 0.45, 0.55, 0.6, 0.7, 0.8, 0.9}; { const double f = fr[rng.below(10)]; v += (rng.chance(0.5) || v - f < 0) ? f : -f; } l.rhsKind = "month-number-with-fraction"; l.rhs = plainTok(numTok(v, rng)); }
        else {
        l.rhs = plainTok(numTok(v, rng)); l.rhsKind = "number";
        }
    }
    else if (rr < 0.08) { l.rhs = plainTok(FQ[rng.below(5)]); l.rhsKind = "field-quantity"; }
    else if (rr < 0.11) { l.rhs = plainTok(GQ[rng.below(3)]); l.rhsArgs.push_back(pickName(rng, GROUPS, 0.5)); l.rhsKind = "group-quantity"; }
    else if (rr < 0.15) {
        std::string q = WQ[rng.below(5)];
        std::vector<std::string> have = wellsHaving(w, q);
        if (have.empty()) { l.rhs = plainTok("3"); l.rhsKind = "number"; }
        else { l.rhs = plainTok(q); l.rhsArgs.push_back(pickName(rng, have, 0.5)); l.rhsKind = "well-quantity"; }
    }
    else { l.rhs = plainTok(numTok(randomValue(rng), rng)); l.rhsKind = "number"; }
    return l;
}

// `budget` = number of comparisons this subtree may still use (>= 1)
static GNode genTree(Rng& rng, const World& w, int depth, int& budget, bool root) {
    GNode n;
    if (depth == 0 || budget < 2 || (!root && rng.chance(0.3))) {
        n.kind = 0; n.leaf = genLeaf(rng, w); --budget; return n;
    }
    n.kind = 1 + (int)rng.below(2);
    int m = std::min(2 + (int)rng.below(3), budget);
    for (int i = 0; i < m; ++i) {
        int reserve = m - 1 - i;
        int avail = budget - reserve;
        int before = avail;
        n.ch.push_back(genTree(rng, w, depth - 1, avail, false));
        budget -= before - avail;
    }
    return n;
}

static int needParen(const GNode& n) {          // parenthesis levels that the precedence rules force inside n
    int need = 0;
    for (auto& c : n.ch) need = std::max(need, ((n.kind == 1 && c.kind == 2) ? 1 : 0) + needParen(c));
    return need;
}

struct Rendered { std::vector<Tok> toks; int maxDepth = 0, ncmp = 0, nand = 0, nor = 0; };

static void render(const GNode& n, int parentKind, int depth, Rng& rng, Rendered& out) {
    bool paren = parentKind == 1 && n.kind == 2;
    if (!paren && depth + 1 + needParen(n) <= 3 && rng.chance(n.kind == 0 ? 0.07 : 0.2)) paren = true;
    if (paren) { out.toks.push_back(plainTok("(")); ++depth; out.maxDepth = std::max(out.maxDepth, depth); }
    if (n.kind == 0) {
        const Leaf& l = n.leaf;
        out.toks.push_back(plainTok(l.q));
        for (auto& a : l.args) out.toks.push_back(a);
        out.toks.push_back(plainTok(l.opTok));
        out.toks.push_back(l.rhs);
        for (auto& a : l.rhsArgs) out.toks.push_back(a);
        ++out.ncmp;
    } else {
        for (size_t i = 0; i < n.ch.size(); ++i) {
            render(n.ch[i], n.kind, depth, rng, out);
            if (i + 1 < n.ch.size()) {
                std::string lg = n.kind == 1 ? "AND" : "OR";
                if (rng.chance(0.08)) for (auto& c : lg) c = (char)tolower(c);
                (n.kind == 1 ? out.nand : out.nor)++;
                out.toks.push_back(plainTok(lg));
            }
        }
    }
    if (paren) out.toks.push_back(plainTok(")"));
}

static bool isLogic(const std::string& t, const char* which) {
    std::string u = t; for (auto& c : u) c = (char)toupper(c);
    return u == which;
}

// deck text of an ACTIONX keyword: one comparison per record, logical operator last
static std::string deckText(const std::string& name, const std::string& maxRun, const std::string& minWait, const std::vector<Tok>& toks) {
    std::ostringstream s;
    s << "ACTIONX\n '" << name << "' " << maxRun << " " << minWait << " /\n";
    std::string line;
    for (auto& t : toks) {
        line += " " + t.deck;
        if (isLogic(t.text, "AND") || isLogic(t.text, "OR")) { s << line << " /\n"; line.clear(); }
    }
    if (!line.empty()) s << line << " /\n";
    s << "/\nENDACTIO\n";
    return s.str();
}

// =================================================================================================
// Reference interpreter (from the property statement)
// =================================================================================================
struct RV {                         // value of a (sub-)condition: truth + optional set of matching wells
    bool b = false; bool has = false; std::set<std::string> w;
    std::string str() const {
        std::string s = b ? "true " : "false ";
        if (!has) return s + "(no set)";
        s += "{";
        for (auto& x : w) s += x + ",";
        return s + "}";
    }
};

static bool glob(const char* p, const char* s) {
    if (!*p) return !*s;
    if (*p == '*') { for (const char* q = s;; ++q) { if (glob(p + 1, q)) return true; if (!*q) return false; } }
    if (!*s) return false;
    if (*p == '?' || *p == *s) return glob(p + 1, s + 1);
    return false;
}

static bool isNumberTok(const std::string& t) {
    if (t.empty()) return false;
    char* e = nullptr; strtod(t.c_str(), &e);
    return *e == 0;
}
static int cmpIndex(const std::string& t) {
    std::string u = t; for (auto& c : u) c = (char)toupper(c);
    for (int i = 0; i < 6; ++i) if (u == OPS[i] || u == OPS_ALT[i]) return i;
    return -1;
}
static bool holds(double a, int op, double b) {
    switch (op) { case 0: return a > b; case 1: return a < b; case 2: return a >= b; case 3: return a <= b; case 4: return a == b; default: return a != b; }
}
static int monthIndex(const std::string& t) {
    static const std::map<std::string, int> m = {{"JAN", 1}, {"FEB", 2}, {"MAR", 3}, {"APR", 4}, {"MAY", 5}, {"JUN", 6}, {"JUL", 7}, {"JLY", 7},
                                                 {"AUG", 8}, {"SEP", 9}, {"OCT", 10}, {"NOV", 11}, {"DEC", 12}};
    auto i = m.find(t); return i == m.end() ? 0 : i->second;
}

struct BadModel : std::runtime_error { using std::runtime_error::runtime_error; };

static double scalarOf(const World& w, const std::string& q, const std::vector<std::string>& args) {
    if (args.empty()) {
        if (isNumberTok(q)) return strtod(q.c_str(), nullptr);
        if (int m = monthIndex(q)) return m;
    }
    std::string key = q;
    for (auto& a : args) key += ":" + a;
    auto i = w.sc.find(key);
    if (i == w.sc.end()) throw BadModel("generator referenced an undefined quantity " + key);
    return i->second;
}

// wells denoted by the single argument of a well quantity
static std::vector<std::string> wellsOf(const World& w, const std::string& q, const std::string& arg) {
    std::vector<std::string> r;
    if (arg.find('*') == std::string::npos) { r.push_back(arg); return r; }
    if (arg.size() > 1 && arg[0] == '*') {                 // well list, or template over well list names
        auto l = w.lists.find(arg);
        if (l != w.lists.end()) return l->second;
        std::set<std::string> u;
        for (auto& e : w.lists) if (glob(arg.c_str() + 1, e.first.c_str() + 1)) u.insert(e.second.begin(), e.second.end());
        return {u.begin(), u.end()};
    }
    std::string p = arg[0] == '\\' ? arg.substr(1) : arg;  // '\*P*' = well name template starting with '*'
    auto have = w.wv.find(q);
    if (have != w.wv.end()) for (auto& e : have->second) if (glob(p.c_str(), e.first.c_str())) r.push_back(e.first);
    return r;
}

static RV evalComparison(const World& w, const std::string& q, const std::vector<std::string>& args, int op,
                         const std::string& rhs, const std::vector<std::string>& rhsArgs, long* nwell = nullptr) {
    double rv = scalarOf(w, rhs, rhsArgs);
    if (q == "MNTH" && args.empty() && rhsArgs.empty() && isNumberTok(rhs)) rv = std::round(rv);   // nearest month
    RV r;
    if (q[0] == 'W' && args.size() == 1) {                 // well-level comparison
        for (auto& well : wellsOf(w, q, args[0])) {
            auto i = w.wv.at(q).find(well);
            if (i == w.wv.at(q).end()) throw BadModel("generator referenced well " + well + " without " + q);
            if (nwell) ++*nwell;
            if (holds(i->second, op, rv)) r.w.insert(well);
        }
        r.b = !r.w.empty();
        r.has = r.b;                                       // a false sub-condition contributes no set
        if (!r.b) r.w.clear();
        return r;
    }
    r.b = holds(scalarOf(w, q, args), op, rv);             // scalar: no set
    return r;
}

static RV combine(int kind, const std::vector<RV>& xs) {
    RV r;
    if (kind == 1) {
        r.b = true;
        for (auto& x : xs) r.b = r.b && x.b;
        if (!r.b) return r;
        for (auto& x : xs) {
            if (!x.has) continue;
            if (!r.has) { r.has = true; r.w = x.w; }
            else { std::set<std::string> t; for (auto& e : r.w) if (x.w.count(e)) t.insert(e); r.w.swap(t); }
        }
    } else {
        for (auto& x : xs) r.b = r.b || x.b;
        if (!r.b) return r;
        for (auto& x : xs) if (x.b && x.has) { r.has = true; r.w.insert(x.w.begin(), x.w.end()); }
    }
    return r;
}

static std::vector<std::string> texts(const std::vector<Tok>& v) { std::vector<std::string> r; for (auto& t : v) r.push_back(t.text); return r; }

static RV evalTree(const World& w, const GNode& n) {
    if (n.kind == 0) return evalComparison(w, n.leaf.q, texts(n.leaf.args), n.leaf.op, n.leaf.rhs.text, texts(n.leaf.rhsArgs));
    std::vector<RV> xs;
    for (auto& c : n.ch) xs.push_back(evalTree(w, c));
    return combine(n.kind, xs);
}

// precedence parser over the token list: OR < AND < comparison / parenthesis
struct RefInterp {
    const std::vector<std::string>& t; const World& w; size_t p = 0; long nwell = 0, ncmp = 0;
    RefInterp(const std::vector<std::string>& toks, const World& world) : t(toks), w(world) {}
    bool at(const char* lg) const { return p < t.size() && isLogic(t[p], lg); }
    bool operand(size_t i) const {
        return i < t.size() && cmpIndex(t[i]) < 0 && !isLogic(t[i], "AND") && !isLogic(t[i], "OR") && t[i] != "(" && t[i] != ")";
    }
    RV run() { RV r = disjunction(); if (p != t.size()) throw BadModel("reference parser: trailing tokens"); return r; }
    RV disjunction() {
        std::vector<RV> xs{conjunction()};
        while (at("OR")) { ++p; xs.push_back(conjunction()); }
        return xs.size() == 1 ? xs[0] : combine(2, xs);
    }
    RV conjunction() {
        std::vector<RV> xs{primary()};
        while (at("AND")) { ++p; xs.push_back(primary()); }
        return xs.size() == 1 ? xs[0] : combine(1, xs);
    }
    RV primary() {
        if (p < t.size() && t[p] == "(") {
            ++p; RV r = disjunction();
            if (p >= t.size() || t[p] != ")") throw BadModel("reference parser: missing )");
            ++p; return r;
        }
        if (!operand(p)) throw BadModel("reference parser: quantity expected");
        std::string q = t[p++]; std::vector<std::string> args, rargs;
        while (operand(p)) args.push_back(t[p++]);
        if (p >= t.size() || cmpIndex(t[p]) < 0) throw BadModel("reference parser: comparison operator expected");
        int op = cmpIndex(t[p++]);
        if (!operand(p)) throw BadModel("reference parser: right-hand side expected");
        std::string rhs = t[p++];
        if (!isNumberTok(rhs)) while (operand(p)) rargs.push_back(t[p++]);
        ++ncmp;
        return evalComparison(w, q, args, op, rhs, rargs, &nwell);
    }
};

// -------------------------------------------------------------------------------------------------
// Model of the library's evaluation order with the two known "empty set instead of no set" paths.
// Used ONLY to choose the violation key when library and reference disagree (never to decide).
//   defA: a well-level comparison that no well satisfies carries an engaged, empty set
//   defB: an AND/OR that turns false keeps its (emptied) set engaged
// The expression tree has the library's shape: OR is right-nested (a OR (b OR c)), AND is flat.
// -------------------------------------------------------------------------------------------------
struct LibModel {
    const std::vector<std::string>& t; const World& w; bool defA, defB; size_t p = 0;
    LibModel(const std::vector<std::string>& toks, const World& world, bool a, bool b) : t(toks), w(world), defA(a), defB(b) {}
    bool at(const char* lg) const { return p < t.size() && isLogic(t[p], lg); }
    bool operand(size_t i) const {
        return i < t.size() && cmpIndex(t[i]) < 0 && !isLogic(t[i], "AND") && !isLogic(t[i], "OR") && t[i] != "(" && t[i] != ")";
    }
    void drop(RV& r) const { r.w.clear(); if (!defB) r.has = false; }
    void accOr(RV& r, const RV& c) const {
        r.b = r.b || c.b;
        if (!r.b) drop(r);
        else if (c.has) { r.has = true; r.w.insert(c.w.begin(), c.w.end()); }
    }
    void accAnd(RV& r, const RV& c) const {
        r.b = r.b && c.b;
        if (!r.b) drop(r);
        else if (c.has) {
            if (!r.has) { r.has = true; r.w = c.w; }
            else { std::set<std::string> x; for (auto& e : r.w) if (c.w.count(e)) x.insert(e); r.w.swap(x); }
        }
    }
    RV parseOr() {
        RV left = parseAnd();
        if (!at("OR")) return left;
        RV r; accOr(r, left);
        while (at("OR")) { ++p; accOr(r, parseOr()); }
        return r;
    }
    RV parseAnd() {
        RV left = parseCmp();
        if (!at("AND")) return left;
        RV r; r.b = true; accAnd(r, left);
        while (at("AND")) { ++p; accAnd(r, parseCmp()); }
        return r;
    }
    RV parseCmp() {
        if (p < t.size() && t[p] == "(") { ++p; RV r = parseOr(); ++p; return r; }
        std::string q = t[p++]; std::vector<std::string> args, rargs;
        while (operand(p)) args.push_back(t[p++]);
        int op = cmpIndex(t[p++]);
        std::string rhs = t[p++];
        if (!isNumberTok(rhs)) while (operand(p)) rargs.push_back(t[p++]);
        RV r = evalComparison(w, q, args, op, rhs, rargs);
        if (defA && q[0] == 'W' && args.size() == 1) r.has = true;
        return r;
    }
};

// =================================================================================================
// Running the library and comparing
// =================================================================================================
struct LibOut { bool threw = false; std::string error; bool truth = false; std::vector<std::string> wells; std::string hasWellDiff; };

static LibOut runLib(const Opm::Action::ActionX& ax, const Opm::Action::Context& ctx, const World& w) {
    LibOut o;
    try {
        auto res = ax.eval(ctx);
        o.truth = res.conditionSatisfied();
        o.wells = res.matches().wells().asVector();
        std::sort(o.wells.begin(), o.wells.end());
        // hasWell() must describe the same set as wells()
        for (auto& well : w.wells) {
            bool in = std::find(o.wells.begin(), o.wells.end(), well) != o.wells.end();
            if (res.matches().hasWell(well) != in) o.hasWellDiff = well;
        }
    } catch (const std::exception& e) { o.threw = true; o.error = e.what(); }
    return o;
}

static std::string setStr(const std::vector<std::string>& v) { std::string s = "{"; for (auto& x : v) s += x + ","; return s + "}"; }

static bool sameAs(const LibOut& o, const RV& m) {
    return o.truth == m.b && o.wells == std::vector<std::string>(m.w.begin(), m.w.end());
}

// compare one library evaluation with the reference; returns true when they agree
static bool judge(vh::Reporter& rep, const std::string& route, const LibOut& lib, const RV& ref,
                  const std::vector<std::string>& toks, const World& w, const std::string& witnessHead) {
    std::string cond;
    for (auto& t : toks) cond += t + " ";
    if (lib.threw) {
        rep.violation("valid-condition-refused:eval", route + ": eval() of a well-formed condition threw: " + lib.error + " | " + cond,
                      witnessHead + "condition: " + cond + "\n" + w.text() + "reference: " + ref.str() + "\nlibrary threw: " + lib.error + "\n");
        return false;
    }
    if (!lib.hasWellDiff.empty())
        rep.violation("matches-haswell-inconsistent", route + ": hasWell(" + lib.hasWellDiff + ") contradicts wells() " + setStr(lib.wells) + " | " + cond,
                      witnessHead + "condition: " + cond + "\n" + w.text());
    if (sameAs(lib, ref)) return true;
    std::string key;
    try {
        RV a = LibModel(toks, w, true, false).parseOr(), b = LibModel(toks, w, false, true).parseOr(), ab = LibModel(toks, w, true, true).parseOr();
        // path B alone, or only both together, explain the result -> B (a repair of path A alone would leave it);
        // only path A explains it -> A
        if (sameAs(lib, b)) key = "or-false-and-cleared-empty-set";
        else if (sameAs(lib, a)) key = "or-false-well-comparison-empty-set";
        else if (sameAs(lib, ab)) key = "or-false-and-cleared-empty-set";
    } catch (const std::exception&) {}
    if (key.empty()) key = lib.truth != ref.b ? "condition-truth-mismatch" : "condition-wells-mismatch";
    std::string what = route + ": library " + (lib.truth ? "true " : "false ") + setStr(lib.wells) + " vs reference " + ref.str() + " for: " + cond;
    rep.violation(key, what, witnessHead + "condition: " + cond + "\n" + w.text() + "library:   " + (lib.truth ? "true " : "false ") + setStr(lib.wells) +
                  "\nreference: " + ref.str() + "\n");
    return false;
}

static Opm::Parser& theParser() { static Opm::Parser p; return p; }

static const Opm::Actdims& bigActdims() {
    static const Opm::Actdims a = [] {
        auto deck = theParser().parseString("RUNSPEC\nACTDIMS\n 10 200 256 64 /\n");
        return Opm::Actdims(deck);
    }();
    return a;
}

static const char* UNIT_KW[] = {"METRIC", "FIELD", "LAB"};
static const double UNIT_TIME_SI[] = {86400.0, 86400.0, 3600.0};     // DAY, DAY, HOUR

// parse an ACTIONX keyword through the deck route; throws on refusal
static Opm::Action::ActionX actionFromDeck(const std::string& actionx, std::time_t start, int unit,
                                           std::vector<std::pair<std::string, std::string>>* errors = nullptr, bool defaultDims = false) {
    std::string text = std::string("RUNSPEC\n") + UNIT_KW[unit] + "\nSCHEDULE\n" + actionx;
    auto deck = theParser().parseString(text);
    const auto& kw = deck["ACTIONX"].back();
    auto pr = Opm::Action::parseActionX(kw, defaultDims ? Opm::Actdims{} : bigActdims(), start);
    if (errors) *errors = pr.second;
    return pr.first;
}

struct CondCase {
    World w; GNode tree; Rendered r; std::vector<std::string> toks; std::string deck;
    std::string text() const {
        std::string c;
        for (auto& t : toks) c += t + " ";
        return "tokens: " + c + "\ndeck:\n" + deck + w.text();
    }
};

static CondCase genCondCase(Rng& rng, int maxDepth) {
    CondCase c;
    c.w = genWorld(rng);
    double r = rng.unit();
    int depth = r < 0.05 ? 0 : r < 0.35 ? 1 : r < 0.70 ? 2 : 3;
    depth = std::min(depth, maxDepth);
    int budget = 2 + (int)rng.below(7);          // at most 8 comparisons
    c.tree = genTree(rng, c.w, depth, budget, true);
    render(c.tree, -1, 0, rng, c.r);
    c.toks = texts(c.r.toks);
    c.deck = deckText("A", "10", "0", c.r.toks);
    return c;
}

static void coverTree(vh::Reporter& rep, const GNode& n) {
    if (n.kind == 0) {
        rep.cover("operator", OPS[n.leaf.op]);
        if (n.leaf.opTok != OPS[n.leaf.op]) rep.cover("operator_spelling", n.leaf.opTok);
        rep.cover("lhs_kind", n.leaf.lhsKind);
        rep.cover("rhs_kind", n.leaf.rhsKind);
        if (!n.leaf.pattern.empty()) rep.cover("pattern", n.leaf.pattern);
        return;
    }
    for (auto& c : n.ch) {
        if (c.kind) rep.cover("nesting", std::string(n.kind == 1 ? "AND" : "OR") + " over " + (c.kind == 1 ? "AND" : "OR"));
        coverTree(rep, c);
    }
}

// reference value of a generated case, cross-checked between tree and token interpretation
static bool referenceOf(vh::Reporter& rep, const CondCase& c, RV& ref, long* nwell = nullptr) {
    try {
        RefInterp ri(c.toks, c.w);
        ref = ri.run();
        if (nwell) *nwell = ri.nwell;
        RV viaTree = evalTree(c.w, c.tree);
        if (ri.ncmp != c.r.ncmp || viaTree.b != ref.b || viaTree.has != ref.has || viaTree.w != ref.w) {
            rep.violation("harness-reference-inconsistent", "reference interpreter disagrees with itself (tree " + viaTree.str() + " vs tokens " + ref.str() + ")", c.text());
            return false;
        }
    } catch (const BadModel& e) {
        rep.violation("harness-generator-error", e.what(), c.text());
        return false;
    }
    return true;
}

static void condCase(vh::Reporter& rep, long idx, Rng& rng) {
    CondCase c = genCondCase(rng, 3);
    RV ref;
    long nwell = 0;
    if (!referenceOf(rep, c, ref, &nwell)) return;
    RealWorld real(c.w);

    bool wellLevel = false;
    std::function<void(const GNode&)> scan = [&](const GNode& n) { if (n.kind == 0) { if (n.leaf.lhsKind.rfind("well", 0) == 0) wellLevel = true; } else for (auto& ch : n.ch) scan(ch); };
    scan(c.tree);
    rep.case_done(vh::fnv(c.text()), c.r.ncmp >= 2 && wellLevel);
    coverTree(rep, c.tree);
    rep.cover("n_comparisons", std::to_string(c.r.ncmp));
    rep.cover("paren_depth", std::to_string(c.r.maxDepth));
    rep.cover("shape", c.r.nand && c.r.nor ? "AND+OR" : c.r.nand ? "AND only" : c.r.nor ? "OR only" : "single");
    rep.cover("reference_result", !ref.b ? "false" : !ref.has ? "true, no set" : ref.w.empty() ? "true, empty set" : "true, wells");
    rep.count("comparisons", c.r.ncmp);
    rep.count("well_values_compared", nwell);
    rep.maxof("max_matching_wells", (double)ref.w.size());

    // route 1: deck -> parseActionX -> eval
    try {
        std::vector<std::pair<std::string, std::string>> errs;
        auto ax = actionFromDeck(c.deck, 0, 0, &errs);
        if (!errs.empty()) {
            rep.violation("valid-condition-refused:parse", "parseActionX reported: " + errs[0].second, c.text());
        } else {
            rep.count("evaluations_deck_route");
            judge(rep, "deck route", runLib(ax, *real.ctx, c.w), ref, c.toks, c.w, "deck:\n" + c.deck);
        }
        // the default ACTDIMS (3 condition lines) rejects longer conditions: counted, not reported
        if ((size_t)c.r.ncmp > Opm::Actdims{}.max_conditions()) {
            std::vector<std::pair<std::string, std::string>> e2;
            actionFromDeck(c.deck, 0, 0, &e2, true);
            rep.count(e2.empty() ? "default_actdims_accepted_long_condition" : "default_actdims_rejections");
        }
    } catch (const std::exception& e) {
        rep.violation("valid-condition-refused:parse", std::string("deck route threw: ") + e.what(), c.text());
    }
    // route 2: token list -> ActionX constructor -> eval
    try {
        Opm::Action::ActionX ax("B", 10, 0.0, 0, std::vector<Opm::Action::Condition>{}, c.toks);
        rep.count("evaluations_token_route");
        judge(rep, "token route", runLib(ax, *real.ctx, c.w), ref, c.toks, c.w, "");
    } catch (const std::exception& e) {
        rep.violation("valid-condition-refused:parse", std::string("ActionX(tokens) threw: ") + e.what(), c.text());
    }
    if (idx < 2) rep.sample(c.text() + "reference: " + ref.str() + "\n");
}

// =================================================================================================
// Part 2: triggering
// =================================================================================================
struct Spec {                       // what the deck / constructor asked for, and what was observed
    std::string name; size_t id = 0; size_t max_run = 0; double min_wait = 0; std::time_t start = 0;
    std::vector<std::time_t> runs;
    std::string str() const {
        std::ostringstream o; o.precision(17);
        o << name << "#" << id << " max_run=" << max_run << " min_wait=" << min_wait << "s start=" << (long)start << " runs at";
        for (auto t : runs) o << " " << (long)t << "(start" << (t >= start ? "+" : "") << (long)(t - start) << ")";
        return o.str();
    }
};

// the three clauses of the statement, over the trace recorded by the harness
static void checkTrace(vh::Reporter& rep, const Spec& s, const std::string& witness) {
    // max_run == 0 is documented (ActionX.hpp) as "unlimited": no count clause to check then
    if (s.max_run > 0 && s.runs.size() > s.max_run)
        rep.violation("ran-more-than-max-run", s.str() + ": " + std::to_string(s.runs.size()) + " runs", witness);
    for (size_t i = 0; i < s.runs.size(); ++i) {
        if (s.runs[i] < s.start) rep.violation("ran-before-start-time", s.str(), witness);
        // seconds elapsed since the previous run must reach min_wait
        if (i > 0 && std::difftime(s.runs[i], s.runs[i - 1]) < s.min_wait)
            rep.violation("ran-sooner-than-min-wait", s.str() + ": run " + std::to_string(i + 1) + " only " +
                          std::to_string((long)(s.runs[i] - s.runs[i - 1])) + "s after the previous one", witness);
    }
    rep.count("traces_checked");
    rep.count("runs", (long)s.runs.size());
    if (s.max_run > 0 && s.runs.size() == s.max_run) rep.count("traces_reaching_max_run");
    if (s.max_run == 0) { rep.count("traces_max_run_0"); rep.count("runs_with_max_run_0", (long)s.runs.size()); }
    for (size_t i = 1; i < s.runs.size(); ++i) {
        double d = std::difftime(s.runs[i], s.runs[i - 1]);
        if (s.min_wait > 0 && d == s.min_wait) rep.count("runs_exactly_at_min_wait");
        if (d == 0) rep.count("runs_coincident_with_previous");
    }
    if (!s.runs.empty() && s.runs[0] == s.start) rep.count("runs_exactly_at_start_time");
}

static const std::time_t EPOCH0 = 946684800;   // 2000-01-01
static const long D = 86400;

// evaluation times (seconds after the first one) of the enumerated grids; `w` = min_wait in seconds
static const int NGRID = 12;
static const char* GRID_NAME[NGRID] = {"1d", "0.5d", "5d", "10d", "all-coincident", "coincident-pairs-1d", "0,1,5,6,10,11,15,20d",
                                       "steps of wait-1s", "wait boundary -1s/0/+1s", "4d,5d,10d-1s,10d,10d,15d-1s,15d", "2d", "1s,2s,1d,1d+1s,5d,10d,20d"};
static std::vector<long> gridTimes(int g, long w) {
    std::vector<long> t(8, 0);
    auto uniform = [&](long step) { for (int i = 0; i < 8; ++i) t[i] = i * step; };
    switch (g) {
    case 0: uniform(D); break;
    case 1: uniform(D / 2); break;
    case 2: uniform(5 * D); break;
    case 3: uniform(10 * D); break;
    case 4: break;
    case 5: for (int i = 0; i < 8; ++i) t[i] = (i / 2) * D; break;
    case 6: { long d[8] = {0, 1, 5, 6, 10, 11, 15, 20}; for (int i = 0; i < 8; ++i) t[i] = d[i] * D; break; }
    case 7: uniform(std::max(0L, w - 1)); break;
    case 8: { long d[8] = {0, w - 1, w, w + 1, 2 * w - 1, 2 * w, 2 * w + 1, 3 * w}; for (int i = 0; i < 8; ++i) t[i] = std::max(0L, d[i]); std::sort(t.begin(), t.end()); break; }
    case 9: { long d[8] = {0, 4 * D, 5 * D, 10 * D - 1, 10 * D, 10 * D, 15 * D - 1, 15 * D}; for (int i = 0; i < 8; ++i) t[i] = d[i]; break; }
    case 10: uniform(2 * D); break;
    default: { long d[8] = {0, 1, 2, D, D + 1, 5 * D, 10 * D, 20 * D}; for (int i = 0; i < 8; ++i) t[i] = d[i]; break; }
    }
    return t;
}

// one step of the action handler: pending -> eval -> run + add_run
template <class OnRun>
static void handlerStep(const Opm::Action::Actions& actions, Opm::Action::State& state, const Opm::Action::Context& ctx, std::time_t t, OnRun&& onRun) {
    for (const auto* action : actions.pending(state, t)) {
        const auto result = action->eval(ctx);
        if (result.conditionSatisfied()) {
            onRun(*action, result);
            state.add_run(*action, t, result);
        }
    }
}

static const int NCFG = 4 * 4 * NGRID * 3;

static void enumeratedTriggerCase(vh::Reporter& rep, long idx) {
    int k = (int)idx;
    const int maxRun = k % 4; k /= 4;
    const long waitDaysTab[4] = {0, 1, 5, 10};
    const long waitDays = waitDaysTab[k % 4]; k /= 4;
    const int g = k % NGRID; k /= NGRID;
    const long offTab[3] = {0, -1, -2 * D};
    const long off = offTab[k % 3];
    const std::time_t start = EPOCH0 + 1000 * D;
    const int condKind = (int)(idx % 3);
    const char* condText[3] = {" FOPR > 0.5 /\n", " WOPR 'W*' > 0.5 /\n", " FOPR > 0.5 AND /\n WOPR 'W*' >= 0 /\n"};
    std::string deck = "ACTIONX\n 'A' " + std::to_string(maxRun) + " " + std::to_string(waitDays) + " /\n" + condText[condKind] + "/\nENDACTIO\n";
    std::vector<std::pair<std::string, std::string>> errs;
    Opm::Action::ActionX ax = actionFromDeck(deck, start, 0, &errs);
    if (!errs.empty()) { rep.violation("valid-condition-refused:parse", errs[0].second, deck); return; }
    Opm::Action::Actions actions;
    actions.add(ax);
    const std::vector<long> grid = gridTimes(g, waitDays * D);
    rep.cover("enumerated_max_run", std::to_string(maxRun));
    rep.cover("enumerated_min_wait_days", std::to_string(waitDays));
    rep.cover("enumerated_grid", GRID_NAME[g]);
    rep.cover("enumerated_first_time_minus_start", std::to_string(off));
    rep.count("enumerated_configurations");

    Opm::WListManager wlm;
    for (int len = 1; len <= 8; ++len) {
        for (unsigned bits = 0; bits < (1u << len); ++bits) {
            Opm::Action::State state;
            Spec s; s.name = "A"; s.id = actions["A"].id(); s.max_run = (size_t)maxRun; s.min_wait = (double)(waitDays * D); s.start = start;
            for (int i = 0; i < len; ++i) {
                const bool outcome = (bits >> i) & 1u;
                const std::time_t t = start + off + grid[i];
                Opm::SummaryState st(Opm::TimeService::from_time_t(EPOCH0), 0.0);
                st.update("FOPR", outcome ? 1.0 : 0.0);
                st.update_well_var("W1", "WOPR", outcome ? 1.0 : 0.0);
                st.update_well_var("W2", "WOPR", 0.0);
                Opm::Action::Context ctx(st, wlm);
                handlerStep(actions, state, ctx, t, [&](const Opm::Action::ActionX&, const Opm::Action::Result&) { s.runs.push_back(t); });
                rep.count("handler_steps");
            }
            std::ostringstream wit;
            wit << deck << "grid " << GRID_NAME[g] << ", first evaluation at start" << (off >= 0 ? "+" : "") << off << "s, outcomes (first step = bit 0) ";
            for (int i = 0; i < len; ++i) wit << ((bits >> i) & 1u);
            wit << "\nevaluation times after start:";
            for (int i = 0; i < len; ++i) wit << " " << off + grid[i];
            wit << "\n" << s.str() << "\n";
            checkTrace(rep, s, wit.str());
            uint64_t h = vh::fnv(&idx, sizeof idx); h = vh::fnv(&len, sizeof len, h); h = vh::fnv(&bits, sizeof bits, h);
            rep.case_done(h, bits != 0);
            rep.count("enumerated_traces");
            if (idx == 333 && len == 8 && bits == 0xFF) rep.sample(wit.str());
        }
    }
}

struct RandAct { Spec spec; std::vector<std::string> toks; std::string deck; bool viaDeck = false; };

static void randomTriggerCase(vh::Reporter& rep, long idx, Rng& rng) {
    const int nA = 1 + (int)rng.below(3);
    const char* names[3] = {"A", "B", "C"};
    World w = genWorld(rng);
    const int unit = (int)rng.below(3);
    const std::time_t startDay = (std::time_t)rng.below(3650);
    const std::time_t start0 = EPOCH0 + startDay * D + (std::time_t)rng.below(D);
    Opm::Action::Actions actions;
    Opm::Action::State state;
    std::vector<RandAct> live;        // current definition per name
    std::vector<Spec> finished;       // replaced definitions
    std::ostringstream log; log.precision(17);

    auto define = [&](const std::string& name, std::time_t start) -> bool {
        RandAct a;
        a.viaDeck = rng.chance(0.5);
        const long mrTab[] = {0, 1, 1, 2, 2, 3, 4, 5, 6, 10, 100};
        a.spec.max_run = (size_t)mrTab[rng.below(11)];
        a.spec.name = name; a.spec.start = start;
        // condition: half simple, half random trees
        Rendered r;
        if (rng.chance(0.5)) {
            GNode n; n.kind = 0; n.leaf = genLeaf(rng, w); n.leaf.q = "FOPR"; n.leaf.args.clear(); n.leaf.op = 0; n.leaf.opTok = ">";
            n.leaf.rhs = plainTok("4"); n.leaf.rhsArgs.clear();
            render(n, -1, 0, rng, r);
        } else {
            int budget = 4;
            GNode n = genTree(rng, w, 1 + (int)rng.below(2), budget, true);
            render(n, -1, 0, rng, r);
        }
        a.toks = texts(r.toks);
        try {
            if (a.viaDeck) {
                const double waitTab[] = {0, 0, 0.5, 1, 2.5, 5, 10, 30};
                const double wu = waitTab[rng.below(8)];
                char b[32]; snprintf(b, sizeof b, "%g", wu);
                a.spec.min_wait = wu * UNIT_TIME_SI[unit];
                a.deck = deckText(name, std::to_string(a.spec.max_run), b, r.toks);
                std::vector<std::pair<std::string, std::string>> errs;
                auto ax = actionFromDeck(a.deck, start, unit, &errs);
                if (!errs.empty()) { rep.violation("valid-condition-refused:parse", errs[0].second, a.deck); return false; }
                actions.add(ax);
            } else {
                const double waitTab[] = {0, 0, -1, 1e-3, 0.5, 1, 59.5, 3600, 86400, 86400.5, 432000, 2592000};
                a.spec.min_wait = waitTab[rng.below(12)];
                actions.add(Opm::Action::ActionX(name, a.spec.max_run, a.spec.min_wait, start, std::vector<Opm::Action::Condition>{}, a.toks));
            }
        } catch (const std::exception& e) {
            rep.violation("valid-condition-refused:parse", std::string("defining an action threw: ") + e.what(), a.deck);
            return false;
        }
        a.spec.id = actions[name].id();
        log << "define " << name << "#" << a.spec.id << (a.viaDeck ? std::string(" via deck (") + UNIT_KW[unit] + ")" : " via constructor") << " max_run=" << a.spec.max_run
            << " min_wait=" << a.spec.min_wait << "s start=" << (long)start << " condition:";
        for (auto& t : a.toks) log << " " << t;
        log << "\n";
        rep.cover("random_max_run", std::to_string(a.spec.max_run));
        rep.cover("random_definition", a.viaDeck ? std::string("deck/") + UNIT_KW[unit] : "constructor");
        for (auto& l : live) if (l.spec.name == name) { finished.push_back(l.spec); l = a; rep.count("redefinitions"); return true; }
        live.push_back(a);
        return true;
    };
    for (int i = 0; i < nA; ++i) if (!define(names[i], start0)) return;

    const int nsteps = 5 + (int)rng.below(36);
    std::time_t t = start0 + (rng.chance(0.3) ? -(std::time_t)rng.below(3 * D) : 0);
    bool anyRun = false;
    for (int step = 0; step < nsteps; ++step) {
        // step length: coincident, seconds, around one action's wait boundary, or long
        const RandAct& refA = live[rng.below(live.size())];
        const long wsec = (long)std::max(0.0, std::floor(refA.spec.min_wait));
        const long choices[] = {0, 0, 1, wsec - 1, wsec, wsec + 1, wsec / 2, (long)rng.below(2 * wsec + 2), D, (long)rng.below(12 * D), 30 * D};
        if (step > 0) t += std::max(0L, choices[rng.below(11)]);
        if (step > 0 && rng.chance(0.02)) { if (!define(live[rng.below(live.size())].spec.name, t)) return; }
        // new summary values
        w.sc["FOPR"] = randomValue(rng);
        if (rng.chance(0.5)) w.sc["FOPR"] = 5 + (double)rng.below(5);
        for (auto& q : w.wv) for (auto& e : q.second) if (rng.chance(0.3)) { e.second = randomValue(rng); w.sc[q.first + ":" + e.first] = e.second; }
        RealWorld real(w);
        log << "t=" << (long)t << " (start0" << (t >= start0 ? "+" : "") << (long)(t - start0) << ") FOPR=" << w.sc["FOPR"] << " :";
        const bool anyReady = actions.ready(state, t);
        const auto pend = actions.pending(state, t);
        if (anyReady != !pend.empty()) rep.count("ready_vs_pending_disagreements");
        handlerStep(actions, state, *real.ctx, t, [&](const Opm::Action::ActionX& ax, const Opm::Action::Result& res) {
            for (auto& l : live) if (l.spec.name == ax.name()) {
                l.spec.runs.push_back(t); anyRun = true;
                log << " RUN " << ax.name() << "#" << ax.id();
                // the condition that let it run must really hold (and carry the right wells)
                try {
                    RV ref = RefInterp(l.toks, w).run();
                    LibOut lo; lo.truth = res.conditionSatisfied(); lo.wells = res.matches().wells().asVector(); std::sort(lo.wells.begin(), lo.wells.end());
                    judge(rep, "trigger run", lo, ref, l.toks, w, "");
                    rep.count("run_conditions_checked");
                } catch (const BadModel& e) { rep.violation("harness-generator-error", e.what(), log.str()); }
            }
        });
        log << "\n";
        rep.count("handler_steps");
    }
    for (auto& l : live) finished.push_back(l.spec);
    std::string witness = "unit system " + std::string(UNIT_KW[unit]) + "\n" + log.str() + w.text();
    for (auto& s : finished) checkTrace(rep, s, witness + s.str() + "\n");
    rep.case_done(vh::fnv(log.str()), anyRun);
    rep.cover("random_actions", std::to_string(nA));
    rep.count("random_simulations");
    if (idx < NCFG + 2) rep.sample(log.str());
}

int main(int argc, char** argv) {
    vh::Args args = vh::parse_args(argc, argv);
    vh::Reporter rep(args, "C18");
    const std::string part = args.get("part", "cond");
    rep.run_cases([&](long idx, Rng& rng) {
        if (part == "cond") condCase(rep, idx, rng);
        else if (idx < NCFG) enumeratedTriggerCase(rep, idx);
        else randomTriggerCase(rep, idx, rng);
    });
    rep.finish();
    return 0;
}
