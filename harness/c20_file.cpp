// C20 (result-file side) — opening any byte string as an Eclipse result file gives a result or an exception.
//
// Workload: structure-aware mutation of the shipped binary / formatted result files (restart, summary, EGRID,
// INIT, RFT, ESMRY) and of files written by the library itself from random arrays: header-field, length,
// type-tag and block-marker corruption, truncation, chunk insert / delete / splice, byte flips.
// Each mutated file is opened with the reader of its kind and every array / vector / step is read.
// Oracle: the process (see c20_deck.cpp).
#include "common/vh.hpp"
#include "common/ecl_ref_codec.hpp"
#include <opm/io/eclipse/EclFile.hpp>
#include <opm/io/eclipse/EclOutput.hpp>
#include <opm/io/eclipse/ERst.hpp>
#include <opm/io/eclipse/ESmry.hpp>
#include <opm/io/eclipse/ExtESmry.hpp>
#include <opm/io/eclipse/EGrid.hpp>
#include <opm/io/eclipse/ERft.hpp>
#include <opm/io/eclipse/EInit.hpp>
#include <opm/io/eclipse/EclUtil.hpp>
#include <filesystem>

using namespace Opm::EclIO;
namespace fs = std::filesystem;
using vh::Rng;

struct Src { std::string path, ext, stem, data; bool formatted; };

static bool isFormattedExt(const std::string& e) {
    return e == ".FUNRST" || e == ".FEGRID" || e == ".FINIT" || e == ".FSMSPEC" || e == ".FUNSMRY" || e == ".FRFT" || (e.size() == 6 && (e[1] == 'F' || e[1] == 'A') && std::isdigit((unsigned char)e[2]));
}

// offsets of the array headers of an unformatted file (own light-weight walk; stops at the first inconsistency)
static std::vector<size_t> headerOffsets(const std::string& d) {
    std::vector<size_t> v;
    size_t p = 0;
    auto be32 = [&](size_t q) { return (uint32_t)((unsigned char)d[q] << 24 | (unsigned char)d[q + 1] << 16 | (unsigned char)d[q + 2] << 8 | (unsigned char)d[q + 3]); };
    while (p + 24 <= d.size()) {
        if (be32(p) != 16) break;
        v.push_back(p);
        uint32_t n = be32(p + 12);
        std::string type = d.substr(p + 16, 4);
        size_t esz = type == "DOUB" ? 8 : (type == "CHAR" ? 8 : (type == "MESS" ? 0 : (type[0] == 'C' ? (size_t)atoi(type.c_str() + 1) : 4)));
        size_t blk = (type == "CHAR" || type[0] == 'C') && type != "CHAR" ? 105 : (type == "CHAR" ? 105 : 1000);
        p += 24;
        size_t rem = n;
        if (esz == 0) continue;
        while (rem > 0) {
            size_t m = std::min(rem, blk);
            if (p + 8 + m * esz > d.size()) return v;
            p += 8 + m * esz; rem -= m;
        }
    }
    return v;
}

// Structure-preserving mutation: the seed is decoded into its arrays, the LIST of arrays is edited (an array resized - also to no
// elements -, removed, duplicated, moved, renamed to a name the readers look for, a new array with such a name inserted, integer
// elements replaced by hostile values) and the list is encoded again.  The result is a WELL-FORMED file whose content is odd: it gets
// past the record layer and meets the code that indexes INTEHEAD / DIMENS / STARTDAT / SEQNUM / NUMLX ... by position.
// Returns an empty string when the seed cannot be decoded.
static std::string mutateArrays(const Src& s, Rng& rng, std::vector<std::string>& ops) {
    std::vector<eref::Array> arr; std::vector<eref::Entry> ix; std::string err;
    const bool okDec = s.formatted ? eref::decode_formatted(s.data, arr, ix, err) : eref::decode_unformatted(s.data, arr, ix, err);
    if (!okDec || arr.empty()) return std::string();
    struct Known { const char* name; eref::Type type; };
    static const Known KNOWN[] = {
        {"SEQNUM", eref::INTE}, {"INTEHEAD", eref::INTE}, {"LOGIHEAD", eref::LOGI}, {"DOUBHEAD", eref::DOUB}, {"LGRNAMES", eref::CHAR}, {"LGR", eref::CHAR},
        {"ENDLGR", eref::MESS}, {"LGRS", eref::CHAR}, {"NUMLX", eref::INTE}, {"NUMLY", eref::INTE}, {"NUMLZ", eref::INTE}, {"KEYWORDS", eref::CHAR},
        {"WGNAMES", eref::CHAR}, {"NAMES", eref::CHAR}, {"NUMS", eref::INTE}, {"UNITS", eref::CHAR}, {"DIMENS", eref::INTE}, {"STARTDAT", eref::INTE},
        {"RESTART", eref::CHAR}, {"MINISTEP", eref::INTE}, {"PARAMS", eref::REAL}, {"SEQHDR", eref::INTE}, {"TIME", eref::REAL}, {"DATE", eref::INTE},
        {"WELLETC", eref::CHAR}, {"FILEHEAD", eref::INTE}, {"GRIDHEAD", eref::INTE}, {"COORD", eref::REAL}, {"ZCORN", eref::REAL}, {"ACTNUM", eref::INTE},
        {"MAPAXES", eref::REAL}, {"MAPUNITS", eref::CHAR}, {"GRIDUNIT", eref::CHAR}, {"NNCHEAD", eref::INTE}, {"NNC1", eref::INTE}, {"NNC2", eref::INTE},
        {"HOSTNUM", eref::INTE}, {"ENDGRID", eref::INTE}, {"COORDSYS", eref::INTE}, {"RSTEP", eref::INTE}, {"TSTEP", eref::INTE}, {"START", eref::INTE},
        {"RSTNUM", eref::INTE}, {"RSTFILE", eref::CHAR}, {"DEPTH", eref::REAL}, {"PRESSURE", eref::REAL}, {"CONIPOS", eref::INTE}, {"CONJPOS", eref::INTE},
        {"CONKPOS", eref::INTE}, {"HOSTGRID", eref::CHAR}, {"PORV", eref::REAL}, {"TABDIMS", eref::INTE}, {"TAB", eref::DOUB}};
    const size_t NK = sizeof KNOWN / sizeof *KNOWN;
    auto resize = [&](eref::Array& a, size_t n) {
        switch (a.type) {
        case eref::INTE: a.iv.resize(n, a.iv.empty() ? 1 : a.iv.back()); break;
        case eref::REAL: a.rv.resize(n, a.rv.empty() ? 1.0f : a.rv.back()); break;
        case eref::DOUB: a.dv.resize(n, a.dv.empty() ? 1.0 : a.dv.back()); break;
        case eref::LOGI: a.lv.resize(n, 0); break;
        case eref::CHAR: case eref::C0NN: a.sv.resize(n, a.sv.empty() ? std::string("X") : a.sv.back()); break;
        default: break;
        }
    };
    const int nm = 1 + (int)rng.below(3);
    for (int m = 0; m < nm && !arr.empty(); ++m) {
        const size_t i = rng.below(arr.size());
        eref::Array& a = arr[i];
        switch (rng.below(9)) {
        case 8: {       // a family of arrays that belong together, sized after their anchor array - then, half of the time, one member resized
            struct Fam { const char* anchor; std::vector<Known> members; };
            static const std::vector<Fam> FAMS = {
                {"KEYWORDS", {{"LGRS", eref::CHAR}, {"NUMLX", eref::INTE}, {"NUMLY", eref::INTE}, {"NUMLZ", eref::INTE}}},
                {"GRIDHEAD", {{"NNCHEAD", eref::INTE}, {"NNC1", eref::INTE}, {"NNC2", eref::INTE}}},
                {"SEQNUM", {{"LGRNAMES", eref::CHAR}, {"LGR", eref::CHAR}, {"LGRHEADI", eref::INTE}, {"ENDLGR", eref::MESS}}},
                {"TIME", {{"DATE", eref::INTE}, {"WELLETC", eref::CHAR}, {"CONIPOS", eref::INTE}, {"CONJPOS", eref::INTE}, {"CONKPOS", eref::INTE}}}};
            const Fam& f = FAMS[rng.below(FAMS.size())];
            size_t at = arr.size(), n = 3;
            for (size_t q = 0; q < arr.size(); ++q) if (arr[q].name == f.anchor) { at = q + 1; n = (size_t)arr[q].count(); break; }
            if (at == arr.size() && rng.chance(0.7)) { ops.push_back("family-insert(no anchor)"); break; }
            const size_t victim = rng.chance(0.5) ? rng.below(f.members.size()) : f.members.size();
            for (size_t q = 0; q < f.members.size(); ++q) {
                eref::Array c; c.name = f.members[q].name; c.type = f.members[q].type; c.width = 8;
                size_t sz = std::min<size_t>(n, 200000);
                if (q == victim) { size_t w[] = {0, 1, sz > 0 ? sz - 1 : 0, sz + 1}; sz = w[rng.below(4)]; }
                resize(c, sz);
                arr.insert(arr.begin() + std::min(at + q, arr.size()), c);
            }
            ops.push_back(std::string("family-insert:") + f.anchor); break; }
        case 0: case 1: {       // resize consistently
            const size_t n = (size_t)a.count();
            size_t want[] = {0, 1, n > 0 ? n - 1 : 0, n + 1, n / 2, 2 * n + 1, 3};
            resize(a, std::min<size_t>(want[rng.below(7)], 200000));
            ops.push_back("array-resize"); break; }
        case 2: arr.erase(arr.begin() + i); ops.push_back("array-remove"); break;
        case 3: { eref::Array c = a; arr.insert(arr.begin() + rng.below(arr.size() + 1), c); ops.push_back("array-duplicate"); break; }
        case 4: { size_t j = rng.below(arr.size()); std::swap(arr[i], arr[j]); ops.push_back("array-move"); break; }
        case 5: { const Known& k = KNOWN[rng.below(NK)]; a.name = k.name; ops.push_back("array-rename"); break; }
        case 6: {       // a new array under a name the readers look for: empty, one element, or the size of a sibling (+-1)
            const Known& k = KNOWN[rng.below(NK)];
            eref::Array c; c.name = k.name; c.type = k.type; c.width = 8;
            const size_t sib = (size_t)arr[rng.below(arr.size())].count();
            size_t want[] = {0, 1, sib, sib > 0 ? sib - 1 : 0, sib + 1};
            resize(c, std::min<size_t>(want[rng.below(5)], 200000));
            arr.insert(arr.begin() + rng.below(arr.size() + 1), c);
            ops.push_back("array-insert-known-name"); break; }
        case 7: {       // hostile integers in an INTE array (header slots are read by position)
            if (a.type == eref::INTE && !a.iv.empty()) {
                static const int32_t H[] = {0, -1, 1, 2147483647, -2147483647 - 1, 1000000, 65536, 13};
                const int k = 1 + (int)rng.below(3);
                for (int q = 0; q < k; ++q) a.iv[rng.below(std::min<size_t>(a.iv.size(), rng.chance(0.7) ? 12 : a.iv.size()))] = H[rng.below(8)];
            }
            ops.push_back("array-int-hostile"); break; }
        }
    }
    return s.formatted ? eref::encode_formatted(arr, false) : eref::encode_unformatted(arr, false);
}

static std::string mutateBytes(const std::vector<Src>& all, const Src& s, Rng& rng, std::vector<std::string>& ops) {
    std::string d = s.data;
    int nm = 1 + (int)rng.below(4);
    for (int m = 0; m < nm && !d.empty(); ++m) {
        size_t p = rng.below(d.size());
        switch (rng.below(10)) {
        case 0: d[p] = (char)rng.below(256); ops.push_back("byte-flip"); break;
        case 1: d.resize(p); ops.push_back("truncate"); break;
        case 2: { size_t q = rng.below(d.size()); size_t len = std::min<size_t>(1 + rng.below(64), d.size() - q); d.insert(p, d.substr(q, len)); ops.push_back("chunk-insert"); break; }
        case 3: { size_t len = std::min<size_t>(1 + rng.below(64), d.size() - p); d.erase(p, len); ops.push_back("chunk-delete"); break; }
        case 4: { if (p + 4 <= d.size()) { static const unsigned char v[][4] = {{0x7f, 0xff, 0xff, 0xff}, {0x80, 0, 0, 0}, {0xff, 0xff, 0xff, 0xff}, {0, 0, 0, 0}, {0, 0, 0x10, 0}, {0, 0, 0, 1}, {0x40, 0, 0, 0}}; memcpy(&d[p], v[rng.below(7)], 4); } ops.push_back("int32-hostile"); break; }
        case 5: { if (p + 8 <= d.size()) { static const char* n[] = {"SEQNUM  ", "INTEHEAD", "STARTSOL", "ENDSOL  ", "MINISTEP", "PARAMS  ", "KEYWORDS", "DIMENS  ", "ZCORN   ", "LGR     ", "ENDLGR  ", "TIME    "}; memcpy(&d[p], n[rng.below(12)], 8); } ops.push_back("name-overwrite"); break; }
        case 6: case 7: {
            // header-field corruption at a real header (unformatted) or at a header-looking line (formatted)
            if (!s.formatted) {
                auto hs = headerOffsets(d);
                if (!hs.empty()) {
                    size_t h = hs[rng.below(hs.size())];
                    switch (rng.below(5)) {
                    case 0: { static const unsigned char v[][4] = {{0x7f, 0xff, 0xff, 0xff}, {0xff, 0xff, 0xff, 0xff}, {0, 0, 0, 0}, {0, 0x0f, 0x42, 0x40}, {0, 0, 0, 1}}; memcpy(&d[h + 12], v[rng.below(5)], 4); ops.push_back("hdr-count"); break; }
                    case 1: { static const char* t[] = {"INTE", "REAL", "DOUB", "LOGI", "CHAR", "MESS", "C008", "C099", "C000", "X231", "XXXX", "C0-1"}; memcpy(&d[h + 16], t[rng.below(12)], 4); ops.push_back("hdr-type"); break; }
                    case 2: { d[h + 3] = (char)rng.below(40); ops.push_back("hdr-head-marker"); break; }
                    case 3: { if (h + 24 <= d.size()) d[h + 23] = (char)rng.below(40); ops.push_back("hdr-tail-marker"); break; }
                    case 4: { if (h + 28 <= d.size()) { static const unsigned char v[][4] = {{0x7f, 0xff, 0xff, 0xff}, {0xff, 0xff, 0xff, 0xfc}, {0, 0, 0, 0}, {0, 0, 0, 3}}; memcpy(&d[h + 24], v[rng.below(4)], 4); } ops.push_back("block-head-marker"); break; }
                    }
                }
            } else {
                size_t q = d.find(" '", p);
                if (q != std::string::npos && q + 30 < d.size()) {
                    // formatted header:  'NAME    '  <count> 'TYPE'
                    static const char* c[] = {"  2147483647", "          -1", "           0", "     9999999", "  abcdefghij"};
                    memcpy(&d[q + 12], c[rng.below(5)] , 12);
                    ops.push_back("fmt-hdr-count");
                } else ops.push_back("fmt-hdr-none");
            }
            break; }
        case 8: { const Src& o = all[rng.below(all.size())]; if (!o.data.empty()) { size_t q = rng.below(o.data.size()); size_t len = std::min<size_t>(1 + rng.below(4096), o.data.size() - q); d.insert(p, o.data.substr(q, len)); } ops.push_back("splice-other-file"); break; }
        case 9: { if (s.formatted) { size_t e = d.find('\n', p); if (e != std::string::npos) d.erase(p, e - p); ops.push_back("fmt-line-cut"); } else { if (p + 8 <= d.size()) { double x = rng.chance(0.5) ? INFINITY : NAN; memcpy(&d[p], &x, 8); } ops.push_back("nan-inf"); } break; }
        }
    }
    return d;
}

template <class F> static void readAll(F& f) {
    f.loadData();
    auto list = f.getList();
    for (size_t i = 0; i < list.size(); ++i) {
        const auto& [name, type, size] = list[i];
        (void)name; (void)size;
        switch (type) {
        case INTE: (void)f.template get<int>((int)i); break;
        case REAL: (void)f.template get<float>((int)i); break;
        case DOUB: (void)f.template get<double>((int)i); break;
        case LOGI: (void)f.template get<bool>((int)i); break;
        case CHAR: case C0NN: (void)f.template get<std::string>((int)i); break;
        default: break;
        }
    }
}

static void exercise(const std::string& kind, const std::string& fn, const std::string& dir) {
    (void)dir;
    if (kind == "rst") {
        ERst r(fn);
        for (int st : r.listOfReportStepNumbers()) {
            r.loadReportStepNumber(st);
            for (auto& a : r.listOfRstArrays(st)) {
                const auto& [name, type, size] = a; (void)size;
                int occ = r.occurrence_count(name, st);
                for (int o = 0; o < std::min(occ, 3); ++o) {
                    switch (type) {
                    case INTE: (void)r.getRestartData<int>(name, st, o); break;
                    case REAL: (void)r.getRestartData<float>(name, st, o); break;
                    case DOUB: (void)r.getRestartData<double>(name, st, o); break;
                    case LOGI: (void)r.getRestartData<bool>(name, st, o); break;
                    case CHAR: case C0NN: (void)r.getRestartData<std::string>(name, st, o); break;
                    default: break;
                    }
                }
            }
            if (r.hasLGR("LGR1", st)) (void)r.listOfRstArrays(st, "LGR1");
        }
        readAll(r);
    } else if (kind == "smry") {
        ESmry e(fn);
        e.loadData();
        for (auto& k : e.keywordList()) { (void)e.get(k); (void)e.get_unit(k); (void)e.get_at_rstep(k); }
        (void)e.dates(); (void)e.startdate(); (void)e.numberOfTimeSteps();
        ESmry e2(fn);
        auto kl = e2.keywordList();
        std::vector<std::string> some;
        for (size_t i = 0; i < kl.size(); i += 3) some.push_back(kl[i]);
        e2.loadData(some);
        for (auto& k : some) (void)e2.get(k);
        // with the base runs the RESTART record names (refusals of a missing base run are results, not crashes)
        try { ESmry e3(fn, true); e3.loadData(); (void)e3.dates(); } catch (const std::exception&) {}
    } else if (kind == "esmry") {
        {
            ExtESmry e(fn);
            e.loadData();
            for (auto& k : e.keywordList()) { (void)e.get(k); (void)e.get_unit(k); (void)e.get_at_rstep(k); }
            (void)e.dates(); (void)e.startdate(); (void)e.numberOfTimeSteps();
        }
        try { ExtESmry e3(fn, true); e3.loadData(); (void)e3.dates(); } catch (const std::exception&) {}
    } else if (kind == "egrid") {
        EGrid g(fn);
        g.load_grid_data();
        (void)g.dimension(); (void)g.is_radial();
        if (g.totalNumberOfCells() < 200000) {
            for (int i = 0; i < g.totalNumberOfCells(); i += 7) {
                auto ijk = g.ijk_from_global_index(i);
                std::array<double, 8> X, Y, Z; g.getCellCorners(ijk, X, Y, Z);
                (void)g.active_index(ijk[0], ijk[1], ijk[2]);
            }
            for (int a = 0; a < g.activeCells(); a += 11) { auto ijk = g.ijk_from_active_index(a); (void)g.global_index(ijk[0], ijk[1], ijk[2]); }
        }
        (void)g.get_nnc_ijk();
        (void)g.get_mapaxes(); (void)g.get_mapunits();
        for (auto& l : g.list_of_lgrs()) { EGrid lg(fn, l); lg.load_grid_data(); }
        readAll(g);
    } else if (kind == "rft") {
        ERft r(fn);
        for (auto& rep : r.listOfRftReports()) {
            const auto& [well, date, time] = rep; (void)time;
            for (auto& a : r.listOfRftArrays(well, date)) {
                const auto& [name, type, size] = a; (void)size;
                switch (type) {
                case INTE: (void)r.getRft<int>(name, well, date); break;
                case REAL: (void)r.getRft<float>(name, well, date); break;
                case DOUB: (void)r.getRft<double>(name, well, date); break;
                case LOGI: (void)r.getRft<bool>(name, well, date); break;
                case CHAR: case C0NN: (void)r.getRft<std::string>(name, well, date); break;
                default: break;
                }
            }
        }
        readAll(r);
    } else if (kind == "init") {
        EInit in(fn);
        for (auto& a : in.list_arrays()) {
            const auto& [name, type, size] = a; (void)size;
            switch (type) {
            case INTE: (void)in.getInitData<int>(name); break;
            case REAL: (void)in.getInitData<float>(name); break;
            case DOUB: (void)in.getInitData<double>(name); break;
            case LOGI: (void)in.getInitData<bool>(name); break;
            default: break;   // (no string instantiation of getInitData in the library)
            }
        }
        readAll(in);
    } else {
        EclFile f(fn);
        readAll(f);
    }
}

static std::string kindOf(const std::string& ext) {
    if (ext == ".UNRST" || ext == ".FUNRST" || (ext.size() == 6 && (ext[1] == 'X' || ext[1] == 'F') && std::isdigit((unsigned char)ext[2]))) return "rst";
    if (ext == ".SMSPEC" || ext == ".FSMSPEC" || ext == ".UNSMRY" || ext == ".FUNSMRY") return "smry";
    if (ext == ".ESMRY") return "esmry";
    if (ext == ".EGRID" || ext == ".FEGRID") return "egrid";
    if (ext == ".RFT" || ext == ".FRFT") return "rft";
    if (ext == ".INIT" || ext == ".FINIT") return "init";
    return "eclfile";
}

int main(int argc, char** argv) {
    vh::Args args = vh::parse_args(argc, argv);
    vh::Reporter rep(args, "C20");
    const std::string scratch = vh::scratch_dir(args);
    const std::string repo = getenv("VERIF_REPO") ? getenv("VERIF_REPO") : "/repo";
    std::vector<Src> src;
    {
        std::vector<std::string> files;
        for (auto& e : fs::directory_iterator(repo + "/tests")) {
            if (!e.is_regular_file()) continue;
            std::string ext = e.path().extension().string();
            static const std::set<std::string> ok = {".UNRST", ".FUNRST", ".SMSPEC", ".UNSMRY", ".EGRID", ".FEGRID", ".RFT", ".INIT", ".FINIT", ".ESMRY"};
            bool numbered = ext.size() == 6 && (ext[1] == 'X' || ext[1] == 'F' || ext[1] == 'S' || ext[1] == 'A') && std::isdigit((unsigned char)ext[2]);
            if (ok.count(ext) || numbered) files.push_back(e.path().string());
        }
        std::sort(files.begin(), files.end());
        for (auto& f : files) {
            Src s; s.path = f; s.ext = fs::path(f).extension().string(); s.stem = fs::path(f).stem().string(); s.data = vh::read_file(f);
            s.formatted = isFormattedExt(s.ext);
            if (s.data.size() > 800000) continue;
            src.push_back(s);
        }
    }
    if (src.empty()) { fprintf(stderr, "no seed files\n"); return 2; }
    rep.count("seed_files", args.shard == 0 ? (long)src.size() : 0);

    rep.run_cases([&](long idx, Rng& rng) {
        const Src& s = src[rng.below(src.size())];
        std::vector<std::string> ops;
        // half of the cases: edits of the array list (well-formed file, odd content); otherwise, or when the seed cannot be decoded
        // by the reference codec, byte level mutation
        std::string d;
        if (rng.chance(0.5)) d = mutateArrays(s, rng, ops);
        if (d.empty()) { ops.clear(); d = mutateBytes(src, s, rng, ops); }
        const std::string dir = scratch + "/case";
        fs::remove_all(dir);
        fs::create_directories(dir);
        std::string fn = dir + "/CASE" + s.ext;
        vh::write_file(fn, d);
        std::string kind = kindOf(s.ext);
        std::string open = fn;
        if (kind == "smry") {
            // the partner file is needed next to it (unmutated)
            bool isSpec = s.ext == ".SMSPEC" || s.ext == ".FSMSPEC";
            std::string partnerExt = isSpec ? ".UNSMRY" : ".SMSPEC";
            std::string partner = (fs::path(s.path).parent_path() / (s.stem + partnerExt)).string();
            std::error_code ec;
            if (fs::exists(partner, ec)) fs::copy_file(partner, dir + "/CASE" + partnerExt, fs::copy_options::overwrite_existing, ec);
            open = dir + "/CASE.SMSPEC";
        }
        std::string opsj; for (auto& o : ops) opsj += o + " ";
        rep.journal_note("seed file: " + s.path + "\nmutations: " + opsj + "\nmutated file kept as: (re-run this case to regenerate it)\n");
        std::string what; bool ok = false;
        try { exercise(kind, open, dir); ok = true; }
        catch (const std::exception& e) { what = e.what(); }
        catch (...) { rep.violation("non-std-exception:" + kind, "something not derived from std::exception was thrown by the " + kind + " reader", "seed file: " + s.path + "\nmutations: " + opsj); }
        rep.cover("reader", kind);
        rep.cover("outcome", ok ? "read" : "exception");
        for (auto& o : ops) rep.cover("mutation", o);
        rep.cover("seed", fs::path(s.path).filename().string());
        rep.case_done(vh::fnv(d), true);
        if (idx < 1) rep.sample("seed " + s.path + " mutations: " + opsj + (ok ? "-> read" : "-> exception: " + what.substr(0, 200)));
    });
    rep.finish();
    return 0;
}
