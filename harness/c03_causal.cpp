// C03 — the schedule is causal: state at step k depends only on input up to step k.
//
// Relational monitor + online invariant:
//  * D = generated model (or shipped deck); for cut points k the tail after the time keyword closing step k is
//    removed (truncation) or replaced (a thinned / reordered tail); Schedule(D)[j] and Schedule(D')[j] must be equal
//    for all j <= k under ScheduleState::operator== and under the structural dump (serializeOp visitor).
//  * hook H1 (guarded, Schedule::handleKeyword / end_report): while later keywords are handled, the dump hash of
//    every snapshot < report_step must not change ("the past is immutable").
#include "common/sdump.hpp"
#include "common/gdeck.hpp"
#include <opm/input/eclipse/Parser/Parser.hpp>
#include <opm/input/eclipse/Parser/ParseContext.hpp>
#include <opm/input/eclipse/Parser/ErrorGuard.hpp>
#include <opm/input/eclipse/Parser/InputErrorAction.hpp>
#include <opm/input/eclipse/EclipseState/EclipseState.hpp>
#include <opm/input/eclipse/Schedule/Schedule.hpp>
#include <opm/input/eclipse/Schedule/ScheduleState.hpp>
#include <opm/input/eclipse/Schedule/VerifHook.hpp>
#include <opm/input/eclipse/Python/Python.hpp>
#include <filesystem>

using namespace Opm;
namespace fs = std::filesystem;
using vh::Rng;

#ifndef OPM_COMMON_VERIF
#error "harness must be built with -DOPM_COMMON_VERIF=1"
#endif

// --------------------------------------------------------------------------------------------------
// immutability monitor on hook H1
// --------------------------------------------------------------------------------------------------
struct PastMonitor {
    std::vector<uint64_t> frozen;          // hash of snapshot i, taken when report step i was closed
    std::vector<std::string> frozenDump;   // kept for small schedules only (witness)
    long events = 0, checks = 0;
    std::set<std::string> kwModes;
    std::string violation, vioKey;
    bool everyKeyword = true;
    void install() {
        Opm::Verif::scheduleKeywordHook() = [this](const Schedule& s, std::size_t step, const std::string& kw, bool actionx) { this->on(s, step, kw, actionx); };
    }
    static void uninstall() { Opm::Verif::scheduleKeywordHook() = nullptr; }
    void on(const Schedule& s, std::size_t step, const std::string& kw, bool actionx) {
        ++events;
        kwModes.insert((kw.empty() ? std::string("<end_report>") : kw) + (actionx ? "/actionx" : ""));
        const size_t n = std::min<size_t>(step, s.size());
        if (everyKeyword || kw.empty()) {
            for (size_t i = 0; i < n && i < frozen.size(); ++i) {
                std::string d = sdump::dump(s[i]);
                ++checks;
                if (vh::fnv(d) != frozen[i] && violation.empty()) {
                    vioKey = "past-snapshot-mutated:" + (kw.empty() ? std::string("end_report") : kw);
                    violation = "snapshot " + std::to_string(i) + " changed while " + (kw.empty() ? "closing" : "handling " + kw + " of") + " report step " + std::to_string(step) +
                                (i < frozenDump.size() ? "\n" + sdump::firstDiff(frozenDump[i], d) : "");
                }
            }
        }
        if (kw.empty() && step < s.size()) {
            // report step `step` has just been closed: freeze it (re-freezing happens when an action re-iterates)
            std::string d = sdump::dump(s[step]);
            if (frozen.size() <= step) { frozen.resize(step + 1, 0); frozenDump.resize(step + 1); }
            frozen[step] = vh::fnv(d);
            frozenDump[step] = d;
        }
    }
};

struct Built {
    std::unique_ptr<EclipseState> es;
    std::unique_ptr<Schedule> sched;
};

static Built build(Parser& parser, const std::string& text, const std::shared_ptr<Python>& python, PastMonitor* mon, bool lenient) {
    Built b;
    ParseContext pc;
    if (lenient) pc.update(InputErrorAction::IGNORE);
    ErrorGuard eg;
    Deck deck = parser.parseString(text, pc, eg);
    eg.clear();
    b.es = std::make_unique<EclipseState>(deck);
    if (mon) mon->install();
    try { b.sched = std::make_unique<Schedule>(deck, *b.es, pc, eg, python); }
    catch (...) { PastMonitor::uninstall(); throw; }
    PastMonitor::uninstall();
    eg.clear();
    return b;
}

static std::string errClass(const std::string& w) {
    // first line, digits removed: groups refusals of the same kind
    std::string l = w.substr(0, w.find('\n'));
    std::string o; for (char c : l) if (!std::isdigit((unsigned char)c)) o += c;
    return o.substr(0, 70);
}

static bool isDefinition(const std::string& n) {
    static const std::set<std::string> s = {"WELSPECS", "COMPDAT", "GRUPTREE", "WELSEGS", "COMPSEGS", "WLIST", "UDQ", "LIFTOPT", "VFPPROD", "BRANPROP", "ACTIONX"};
    return s.count(n) > 0;
}

static long g_opeq_false = 0;
// compare states 0..k of two schedules; returns description of first difference or ""
static std::string compareUpTo(const Schedule& a, const Schedule& b, size_t k, long& ncmp, std::string& key) {
    for (size_t j = 0; j <= k; ++j) {
        ++ncmp;
        bool eq = a[j] == b[j];
        std::string da = sdump::dump(a[j]), db = sdump::dump(b[j]);
        // ScheduleState::operator== is NOT part of the verdict: it compares UnitSystem::m_dimensions, a memo of the dimension
        // strings met while parsing the *whole* deck (so it differs between a deck and its truncation although nothing
        // observable does).  The structural dump (memo elided) sees every serialised member, i.e. strictly more otherwise.
        if (!eq) ++g_opeq_false;
        if (da != db) {
            key = "state-differs:structural-dump";
            // One leak is narrow enough to be told apart (known finding): a VFPPROD table whose ALQ type (item 7) is defaulted takes
            // the type GRAT, and the gas rate unit for its ALQ axis, when LIFTOPT occurs ANYWHERE in the deck (ScheduleStatic::
            // gaslift_opt_active).  With the ALQ type and axis of every table neutralised on both sides the states must be equal.
            auto neutral = [](const ScheduleState& s) {
                ScheduleState c = s;
                for (int id : s.vfpprod.keys()) {
                    const auto& t = s.vfpprod(id);
                    c.vfpprod.update(VFPProdTable(t.getTableNum(), t.getDatumDepth(), t.getFloType(), t.getWFRType(), t.getGFRType(), VFPProdTable::ALQ_TYPE::ALQ_UNDEF,
                                                  t.getFloAxis(), t.getTHPAxis(), t.getWFRAxis(), t.getGFRAxis(), std::vector<double>(t.getALQAxis().size(), 0.0), t.getTable()));
                }
                // the ALQ value of a producer (WCONPROD item 12) is converted with the unit of its table's ALQ type
                for (const auto& wn : s.well_order()) {
                    Well w = s.wells.get(wn);
                    if (!w.isProducer()) continue;
                    auto pp = std::make_shared<Well::WellProductionProperties>(w.getProductionProperties());
                    pp->ALQValue = UDAValue(0.0);
                    w.updateProduction(pp);
                    c.wells.update(std::move(w));
                }
                return sdump::dump(c);
            };
            bool alqDiffers = false;
            for (int id : a[j].vfpprod.keys()) if (b[j].vfpprod.has(id) && a[j].vfpprod(id).getALQType() != b[j].vfpprod(id).getALQType()) alqDiffers = true;
            if (alqDiffers && neutral(a[j]) == neutral(b[j])) key = "state-differs:vfpprod-defaulted-alq-type-follows-LIFTOPT-of-a-later-step";
            return "state " + std::to_string(j) + " (cut after step " + std::to_string(k) + "): operator== " + (eq ? "true" : "false") + ", structural dump " + (da == db ? "equal" : "differs " + sdump::firstDiff(da, db));
        }
    }
    return "";
}

static std::vector<std::string> shippedDecks(const std::string& repo) {
    std::vector<std::string> v;
    for (auto& e : fs::directory_iterator(repo + "/tests")) {
        if (!e.is_regular_file()) continue;
        if (e.path().extension() == ".DATA") v.push_back(e.path().string());
    }
    std::sort(v.begin(), v.end());
    return v;
}

int main(int argc, char** argv) {
    vh::Args args = vh::parse_args(argc, argv);
    vh::Reporter rep(args, "C03");
    Parser parser;
    auto python = std::make_shared<Python>();
    const std::string mode = args.get("mode", "gen");
    const std::string repo = getenv("VERIF_REPO") ? getenv("VERIF_REPO") : "/repo";
    const int maxCuts = (int)args.geti("max_cuts", 6);

    if (mode == "shipped") {
        auto decks = shippedDecks(repo);
        rep.count("shipped_decks_found", args.shard == 0 ? (long)decks.size() : 0);
        rep.run_cases([&](long idx, Rng& rng) {
            if (decks.empty()) return;
            const std::string& path = decks[idx % decks.size()];
            std::string raw = vh::read_file(path);
            if (raw.find("PYACTION") != std::string::npos || raw.find("PYINPUT") != std::string::npos || raw.size() > 3000000) { rep.count("skipped"); return; }
            // flatten through the deck writer so that the SCHEDULE section can be cut as text
            std::string flat;
            Built full;
            PastMonitor mon; mon.everyKeyword = false;
            try {
                ParseContext pc; pc.update(InputErrorAction::IGNORE); ErrorGuard eg;
                Deck d = parser.parseFile(path, pc, eg); eg.clear();
                std::ostringstream s; s << d; flat = s.str();
                full = build(parser, flat, python, &mon, true);
            } catch (const std::exception& e) { rep.count("base_refused"); rep.cover("base_refused_deck", fs::path(path).filename().string()); return; }
            if (!mon.violation.empty()) rep.violation(mon.vioKey, mon.violation, "shipped deck " + path);
            rep.count("hook_events", mon.events); rep.count("hook_checks", mon.checks);
            for (auto& km : mon.kwModes) rep.cover("hook_keyword_mode", km);
            // cut points: after a TSTEP/DATES keyword in the printed text
            size_t sp = flat.find("\nSCHEDULE\n");
            if (sp == std::string::npos) { rep.count("no_schedule_section"); return; }
            std::vector<size_t> cutEnds;   // text offset just after time keyword closing step k  (k = index)
            {
                std::istringstream is(flat.substr(sp + 1)); std::string l; size_t off = sp + 1; bool inTime = false; bool dates = false;
                while (std::getline(is, l)) {
                    size_t lineEnd = off + l.size() + 1;
                    if (l == "TSTEP" || l == "DATES") { inTime = true; dates = l == "DATES"; }
                    else if (inTime) {
                        if (!dates && l.find('/') != std::string::npos) {
                            // a TSTEP record may hold several steps: count values (n*v forms expanded)
                            std::istringstream ts(l); std::string t; int n = 0;
                            while (ts >> t) { if (t == "/") break; size_t st = t.find('*'); n += st == std::string::npos ? 1 : atoi(t.substr(0, st).c_str()); }
                            for (int q = 0; q < n; ++q) cutEnds.push_back(q + 1 == n ? lineEnd : 0);   // only the last sub-step is a text cut point
                            inTime = false;
                        } else if (dates) {
                            if (l == "/") inTime = false; else cutEnds.push_back(0);
                            if (!inTime && !cutEnds.empty()) cutEnds.back() = lineEnd;
                        }
                    }
                    off = lineEnd;
                }
            }
            const Schedule& S = *full.sched;
            long ncmp = 0; int done = 0;
            std::vector<size_t> ks;
            for (size_t k = 0; k < cutEnds.size(); ++k) if (cutEnds[k] != 0 && k + 1 < S.size()) ks.push_back(k);
            rng.shuffle(ks);
            for (size_t k : ks) {
                if (done >= maxCuts) break;
                std::string cut = flat.substr(0, cutEnds[k]);
                Built t;
                try { t = build(parser, cut, python, nullptr, true); }
                catch (const std::exception& e) { rep.count("truncated_refused"); continue; }
                if (t.sched->size() != k + 2) { rep.count("cut_point_mismatch"); continue; }   // my step counting disagrees: skip, never report
                std::string key, diff = compareUpTo(S, *t.sched, k, ncmp, key);
                ++done;
                if (!diff.empty()) { rep.violation(key.find("vfpprod-defaulted") != std::string::npos ? key : key + ":shipped", "truncating " + fs::path(path).filename().string() + " changes an earlier state: " + diff.substr(0, 300), "deck: " + path + "\n" + diff); break; }
            }
            rep.count("state_comparisons", ncmp); rep.count("cuts", done);
            rep.cover("deck", fs::path(path).filename().string());
            rep.case_done(vh::fnv(path + std::to_string(idx)), done > 0);
            if (idx < 1) rep.sample("shipped deck " + path + ": " + std::to_string(S.size()) + " report steps, " + std::to_string(done) + " cuts compared");
        });
        rep.finish();
        return 0;
    }

    rep.run_cases([&](long idx, Rng& rng) {
        gdeck::Opts o;
        o.vfpDefaultAlq = true;
        gdeck::Generator gen(rng, o);
        gdeck::Model m = gen.generate();
        // the two keywords of the known finding meet by themselves once in some thousand models; put them in place in 4 % of the models
        if (!m.hasLiftOpt && m.steps.size() >= 3 && rng.chance(0.04)) {
            m.steps[0].kws.push_back({"VFPPROD", std::string("VFPPROD\n 97 2000 'LIQ' 'WCT' 'GOR' 'THP' 1* '") + (m.units == "LAB" ? "LAB" : m.units) + "' 'BHP' /\n 100 500 1000 /\n 10 20 /\n 0 0.5 /\n 50 /\n 0 /\n 1 1 1 1 110 130 160 /\n 1 2 1 1 112 130 160 /\n 2 1 1 1 120 140 170 /\n 2 2 1 1 123 140 170 /\n"});
            m.steps.back().kws.push_back({"LIFTOPT", "LIFTOPT\n 12500 5E-3 37. 'YES' /\n"});
            rep.count("models_with_defaulted_alq_table_and_later_LIFTOPT");
        }
        std::string stat = m.staticPart();
        std::string full = stat + "SCHEDULE\n" + m.scheduleText();
        Built F;
        PastMonitor mon;
        try { F = build(parser, full, python, &mon, false); }
        catch (const std::exception& e) { rep.count("base_refused"); rep.cover("base_refused_why", errClass(e.what())); if (args.replaying) fprintf(stderr, "REFUSED: %s\n%s\n", e.what(), full.c_str()); return; }
        if (!mon.violation.empty()) rep.violation(mon.vioKey, mon.violation, full);
        rep.count("hook_events", mon.events); rep.count("hook_checks", mon.checks);
        for (auto& km : mon.kwModes) rep.cover("hook_keyword_mode", km);
        for (auto& st : m.steps) for (auto& k : st.kws) rep.cover("schedule_keyword", k.name);
        const Schedule& S = *F.sched;
        const size_t nsteps = m.steps.size();
        if (S.size() != nsteps + 1) { rep.count("step_count_mismatch"); return; }
        std::vector<size_t> ks;
        for (size_t k = 0; k + 1 < nsteps; ++k) ks.push_back(k);
        rng.shuffle(ks);
        long ncmp = 0; int cuts = 0; bool tailChanges = false;
        for (size_t k : ks) {
            if (cuts >= maxCuts) break;
            for (int variant = 0; variant < 3; ++variant) {
                // 0: truncation; 1: thinned tail (random non-definition keywords removed); 2: tail steps reordered + thinned
                std::string text = stat + "SCHEDULE\n" + m.scheduleText(k + 1);
                if (variant > 0) {
                    std::vector<size_t> order;
                    for (size_t s = k + 1; s < nsteps; ++s) order.push_back(s);
                    if (variant == 2) {
                        // moving a step earlier is only valid if it does not use later definitions: keep definitions in place, permute the rest
                        std::vector<std::vector<gdeck::KwInst>> movable;
                        for (size_t s : order) { std::vector<gdeck::KwInst> mv; for (auto& kw : m.steps[s].kws) if (!isDefinition(kw.name)) mv.push_back(kw); movable.push_back(mv); }
                        std::reverse(movable.begin(), movable.end());
                        // a keyword moved earlier may reference a well defined later -> such decks are refused and skipped
                        size_t q = 0;
                        for (size_t s : order) {
                            for (auto& kw : m.steps[s].kws) if (isDefinition(kw.name)) text += kw.text;
                            for (auto& kw : movable[q]) if (rng.chance(0.8)) text += kw.text;
                            text += m.steps[s].timeKw; ++q;
                        }
                    } else {
                        for (size_t s : order) { for (auto& kw : m.steps[s].kws) if (isDefinition(kw.name) || rng.chance(0.6)) text += kw.text; text += m.steps[s].timeKw; }
                    }
                    if (rng.chance(0.5)) text += "WELSPECS\n 'ZZ9' 'G1' 1 1 1* 'OIL' /\n/\nTSTEP\n 5 /\n";
                }
                Built T;
                try { T = build(parser, text, python, nullptr, false); }
                catch (const std::exception& e) { rep.count(variant == 0 ? "truncated_refused" : "changed_tail_refused"); if (variant == 0) rep.cover("truncated_refused_why", errClass(e.what())); continue; }
                std::string key, diff = compareUpTo(S, *T.sched, k, ncmp, key);
                rep.count(variant == 0 ? "cuts_truncation" : (variant == 1 ? "cuts_thinned_tail" : "cuts_reordered_tail"));
                bool tailNonEmpty = false;
                for (size_t s = k + 1; s < nsteps; ++s) if (!m.steps[s].kws.empty()) tailNonEmpty = true;
                tailChanges = tailChanges || tailNonEmpty;
                if (!diff.empty()) {
                    rep.violation(key.find("vfpprod-defaulted") != std::string::npos ? key : key + (variant == 0 ? ":truncation" : ":changed-tail"), "changing the input after report step " + std::to_string(k) + " changes an earlier state: " + diff.substr(0, 300),
                                  "--- full deck ---\n" + full + "\n--- changed deck ---\n" + text + "\n--- difference ---\n" + diff);
                    break;
                }
            }
            ++cuts;
        }
        rep.count("state_comparisons", ncmp);
        rep.count("operator_eq_false_while_dump_equal", g_opeq_false); g_opeq_false = 0;
        rep.case_done(vh::fnv(full), cuts > 0 && tailChanges);
        if (idx < 1) rep.sample(full.substr(full.find("SCHEDULE")));
    });
    rep.finish();
    return 0;
}
