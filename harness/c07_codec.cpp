// C07 — Eclipse array files round-trip and conform to the published on-disk layout.
//
// Monitor: array sequences are written with the library's EclOutput and observed three ways:
//   (a) the bytes on disk are decoded by the independent reference codec (common/ecl_ref_codec.hpp)
//       and must yield the arrays that were written (bit-exact unformatted; exact integers, logicals
//       and strings and reals within half a unit of the last printed digit formatted);
//   (b) the bytes must equal, byte for byte, the encoding the reference codec produces from the
//       published layout (records, block sizes, column widths, number forms);
//   (c) the library's EclFile reads the file back (names, types, lengths, C0nn width, values) and its
//       index (data offsets, end of file, sizeOnDisk*) must equal the reference offsets; when (b)
//       fails the reference-encoded file is read by EclFile as well.
// Case space: idx < 33752 enumerates every type x every length 0..2*block+2 x {formatted,
// unformatted} x {ECL, IX}; later indices are random multi-array files (mode=full).  mode=boundary
// (sanitizer replica) enumerates the boundary lengths only, then random files.
#include <opm/io/eclipse/EclFile.hpp>
#include <opm/io/eclipse/EclIOdata.hpp>
#include <opm/io/eclipse/EclOutput.hpp>
#include <opm/io/eclipse/EclUtil.hpp>
#include <opm/io/eclipse/PaddedOutputString.hpp>

#include "common/ecl_ref_codec.hpp"
#include "common/vh.hpp"

#include <algorithm>
#include <cfloat>
#include <climits>
#include <memory>
#include <numeric>

namespace EclIO = Opm::EclIO;
using vh::Rng;

static const char* KEY_IX_TRUNC = "formatted-ix-doub-3digit-exponent-truncated";
static const char* KEY_DENORMAL = "formatted-doub-denormal-unreadable";

// ---------------------------------------------------------------------------------------------
// case description
// ---------------------------------------------------------------------------------------------
enum Api { API_PLAIN, API_STR_AUTO, API_STR_WIDTH, API_PADDED8, API_MESSAGE };
static const char* API_NAME[] = {"write<T>", "write<string>(auto CHAR/C0nn)", "write(string,width)", "write<PaddedOutputString<8>>", "message"};

struct ArrSpec {
    eref::Array a;       // what has to be on disk
    Api api = API_PLAIN; // which library entry point writes it
    int api_width = 0;   // element_size argument of write(name, data, element_size)
};
struct Case {
    bool fmt = false, ix = false;
    std::vector<ArrSpec> arrs;
    std::string tag() const { return std::string(fmt ? "fmt" : "unf") + ":" + (ix ? "ix" : "ecl"); }
    std::string text(int maxe = 8) const {
        std::string o = std::string(fmt ? "formatted" : "unformatted") + (ix ? " IX" : " ECL") + ", " + std::to_string(arrs.size()) + " arrays\n";
        for (const auto& s : arrs) o += "  " + eref::describe(s.a, maxe) + " via " + API_NAME[s.api] + (s.api == API_STR_WIDTH ? " element_size=" + std::to_string(s.api_width) : "") + "\n";
        return o;
    }
};

static EclIO::eclArrType libType(eref::Type t) {
    switch (t) {
    case eref::INTE: return EclIO::INTE; case eref::REAL: return EclIO::REAL; case eref::DOUB: return EclIO::DOUB; case eref::LOGI: return EclIO::LOGI;
    case eref::CHAR: return EclIO::CHAR; case eref::C0NN: return EclIO::C0NN; case eref::MESS: return EclIO::MESS;
    }
    return EclIO::MESS;
}
static const char* libTypeName(EclIO::eclArrType t) {
    switch (t) {
    case EclIO::INTE: return "INTE"; case EclIO::REAL: return "REAL"; case EclIO::DOUB: return "DOUB"; case EclIO::LOGI: return "LOGI";
    case EclIO::CHAR: return "CHAR"; case EclIO::C0NN: return "C0NN"; case EclIO::MESS: return "MESS";
    }
    return "?";
}

// ---------------------------------------------------------------------------------------------
// value generators
// ---------------------------------------------------------------------------------------------
// A profile selects which groups of extreme values an array contains (so that one extreme class
// does not appear in every array).
enum Group { G_ZERO, G_TINY, G_HUGE, G_EXP3_POS, G_EXP3_NEG, G_CARRY, G_NONFINITE, G_BITS, NGROUPS };
struct Profile { bool on[NGROUPS] = {false}; double p = 0.0; };
static Profile genProfile(Rng& r, bool fmt) {
    Profile pr;
    if (r.chance(0.5)) return pr;
    pr.p = r.chance(0.5) ? 0.05 : 0.3;
    int n = 1 + (int)r.below(2);
    for (int i = 0; i < n; ++i) pr.on[r.below(NGROUPS)] = true;
    if (fmt) pr.on[G_BITS] = false;        // raw bit patterns (NaN payloads) exist in unformatted files only
    return pr;
}
static int32_t genInt(Rng& r, const Profile& pr) {
    if (pr.p > 0 && r.chance(pr.p)) {
        static const int32_t ext[] = {INT_MIN, INT_MAX, 0, -1, 1, -999999999, 999999999, 1000000000, -1000000000, INT_MIN + 1, 99999, -99999, 100000};
        return ext[r.below(sizeof ext / sizeof *ext)];
    }
    switch (r.below(3)) {
    case 0: return (int32_t)(uint32_t)r.u64();
    case 1: return (int32_t)r.range(-1000, 1000);
    default: return (int32_t)r.range(-100000000, 100000000);
    }
}
static float bitsToFloat(uint32_t b) { float f; std::memcpy(&f, &b, 4); return f; }
static double bitsToDouble(uint64_t b) { double d; std::memcpy(&d, &b, 8); return d; }
static float genReal(Rng& r, const Profile& pr) {
    if (pr.p > 0 && r.chance(pr.p)) {
        std::vector<float> pool;
        if (pr.on[G_ZERO]) { pool.push_back(0.0f); pool.push_back(-0.0f); }
        if (pr.on[G_TINY]) { pool.push_back(FLT_MIN); pool.push_back(-FLT_MIN); pool.push_back(bitsToFloat(1)); pool.push_back(-bitsToFloat(1)); pool.push_back(1e-40f); pool.push_back(-3.3e-42f); }
        if (pr.on[G_HUGE] || pr.on[G_EXP3_POS] || pr.on[G_EXP3_NEG]) { pool.push_back(FLT_MAX); pool.push_back(-FLT_MAX); pool.push_back(1e38f); pool.push_back(-2.5e37f); }
        if (pr.on[G_CARRY]) { pool.push_back(9.9999999f); pool.push_back(0.99999999f); pool.push_back(-99999.996f); pool.push_back(1.0f); pool.push_back(1e10f); pool.push_back(1e-10f); pool.push_back(0.1f); }
        if (pr.on[G_NONFINITE]) { pool.push_back(INFINITY); pool.push_back(-INFINITY); pool.push_back(NAN); }
        if (pr.on[G_BITS]) return bitsToFloat((uint32_t)r.u64());
        if (!pool.empty()) return pool[r.below(pool.size())];
    }
    switch (r.below(3)) {
    case 0: return std::ldexp((float)(r.unit() * 2.0 - 1.0), (int)r.range(-30, 30));
    case 1: return (float)r.range(-99999, 99999) / 1000.0f;
    default: return (float)r.range(-1000000, 1000000);
    }
}
static double genDoub(Rng& r, const Profile& pr) {
    if (pr.p > 0 && r.chance(pr.p)) {
        std::vector<double> pool;
        if (pr.on[G_ZERO]) { pool.push_back(0.0); pool.push_back(-0.0); }
        if (pr.on[G_TINY]) { pool.push_back(DBL_MIN); pool.push_back(bitsToDouble(1)); pool.push_back(1e-310); pool.push_back(-3.3e-320); pool.push_back(2.3e-308); pool.push_back(-2.3e-308); }
        if (pr.on[G_HUGE]) { pool.push_back(DBL_MAX); pool.push_back(1.5e308); pool.push_back(1e300); }
        if (pr.on[G_EXP3_POS]) { pool.push_back(1e100); pool.push_back(1.5e100); pool.push_back(1e-100); pool.push_back(2.5e-105); pool.push_back(r.loguniform(1e100, 1e300)); pool.push_back(r.loguniform(1e-300, 1e-100)); }
        if (pr.on[G_EXP3_NEG]) { pool.push_back(-1e300); pool.push_back(-1e-300); pool.push_back(-DBL_MAX); pool.push_back(-r.loguniform(1e100, 1e300)); pool.push_back(-r.loguniform(1e-300, 1e-100)); pool.push_back(-1e100); }
        if (pr.on[G_CARRY]) { pool.push_back(1e99); pool.push_back(9.9999999999999995e99); pool.push_back(9.99999999999999e-100); pool.push_back(1e-99); pool.push_back(9.99999999999996e98);
                              pool.push_back(0.999999999999996); pool.push_back(-99999.9999999996); pool.push_back(1.0); pool.push_back(0.1); pool.push_back(-1e-99); }
        if (pr.on[G_NONFINITE]) { pool.push_back(INFINITY); pool.push_back(-INFINITY); pool.push_back(NAN); }
        if (pr.on[G_BITS]) return bitsToDouble(r.u64());
        if (!pool.empty()) return pool[r.below(pool.size())];
    }
    switch (r.below(3)) {
    case 0: return std::ldexp(r.unit() * 2.0 - 1.0, (int)r.range(-250, 250));
    case 1: return (double)r.range(-999999999, 999999999) / 1000.0;
    default: return (double)r.range(-1000000, 1000000);
    }
}
static std::string genStr(Rng& r, int maxlen, const Profile& pr) {
    int n;
    if (pr.p > 0 && r.chance(0.5)) n = r.chance(0.5) ? maxlen : 0;     // full-width and empty strings
    else n = (int)r.below((uint64_t)maxlen + 1);
    std::string s;
    for (int i = 0; i < n; ++i) {
        char c;
        const uint64_t k = r.below(100);
        if (k < 60) c = (char)('A' + r.below(26));
        else if (k < 75) c = (char)('0' + r.below(10));
        else if (k < 85) c = (char)('a' + r.below(26));
        else if (k < 92) c = ' ';
        else if (k < 93) c = '\'';
        else { static const char sym[] = "_-+.:/*#%&()=<>"; c = sym[r.below(sizeof sym - 1)]; }
        s.push_back(c);
    }
    return eref::rtrim(s);    // trailing blanks are padding and cannot be told from it
}
static std::string genName(Rng& r) {
    static const char* common[] = {"INTEHEAD", "LOGIHEAD", "DOUBHEAD", "PRESSURE", "SWAT", "ZWEL", "PORV", "X", "KEYWORDS", "A_B-1"};
    if (r.chance(0.4)) return common[r.below(sizeof common / sizeof *common)];
    int n = 1 + (int)r.below(8);
    std::string s;
    for (int i = 0; i < n; ++i) { static const char al[] = "ABCDEFGHIJKLMNOPQRSTUVWXYZ0123456789_"; s.push_back(al[r.below(sizeof al - 1)]); }
    return s;
}

static ArrSpec genArray(Rng& r, eref::Type t, long len, bool fmt, const std::string& name, int c0nn_max_width) {
    ArrSpec s;
    s.a.name = name; s.a.type = t;
    const Profile pr = genProfile(r, fmt);
    switch (t) {
    case eref::INTE: s.a.iv.resize(len); for (auto& x : s.a.iv) x = genInt(r, pr); break;
    case eref::REAL: s.a.rv.resize(len); for (auto& x : s.a.rv) x = genReal(r, pr); break;
    case eref::DOUB: s.a.dv.resize(len); for (auto& x : s.a.dv) x = genDoub(r, pr); break;
    case eref::LOGI: s.a.lv.resize(len); for (auto& x : s.a.lv) x = (unsigned char)r.below(2); break;
    case eref::CHAR:
        s.a.sv.resize(len); for (auto& x : s.a.sv) x = genStr(r, 8, pr);
        s.api = r.chance(0.5) ? API_STR_AUTO : API_PADDED8;
        break;
    case eref::C0NN: {
        // three ways to obtain a C0nn array: explicit width > 8, explicit width <= 8 (stored as C008),
        // or write<string> with a longest string of more than 8 characters (width = that length)
        const uint64_t how = r.below(10);
        s.a.sv.resize(len);
        if (how < 6 || len == 0) {
            int w = (int)r.range(9, c0nn_max_width);
            if (how == 0) w = (int)r.range(1, 8);
            for (auto& x : s.a.sv) x = genStr(r, w, pr);
            s.api = API_STR_WIDTH; s.api_width = w; s.a.width = std::max(w, 8);
        } else {
            const int w = (int)r.range(9, c0nn_max_width);
            for (auto& x : s.a.sv) x = genStr(r, w, pr);
            auto& one = s.a.sv[r.below((uint64_t)len)];
            while ((int)one.size() < w) one.push_back((char)('a' + r.below(26)));     // make the longest string w characters
            s.api = API_STR_AUTO; s.a.width = w;
        }
        break; }
    case eref::MESS: s.api = API_MESSAGE; break;
    }
    return s;
}

// ---------------------------------------------------------------------------------------------
// the library under test
// ---------------------------------------------------------------------------------------------
static void libWrite(const std::string& path, const Case& cs) {
    EclIO::EclOutput out(path, cs.fmt);
    if (cs.ix) out.set_ix();
    for (const auto& s : cs.arrs) {
        const auto& a = s.a;
        switch (a.type) {
        case eref::INTE: out.write(a.name, std::vector<int>(a.iv.begin(), a.iv.end())); break;
        case eref::REAL: out.write(a.name, a.rv); break;
        case eref::DOUB: out.write(a.name, a.dv); break;
        case eref::LOGI: { std::vector<bool> b(a.lv.size()); for (size_t i = 0; i < b.size(); ++i) b[i] = a.lv[i] != 0; out.write(a.name, b); break; }
        case eref::CHAR: case eref::C0NN:
            if (s.api == API_STR_AUTO) out.write(a.name, a.sv);
            else if (s.api == API_STR_WIDTH) out.write(a.name, a.sv, s.api_width);
            else { std::vector<EclIO::PaddedOutputString<8>> p; p.reserve(a.sv.size()); for (const auto& x : a.sv) p.emplace_back(x); out.write(a.name, p); }
            break;
        case eref::MESS: out.message(a.name); break;
        }
    }
}

// EclFile keeps its index protected; the property is about that index, so expose it read-only.
struct IndexedEclFile : public EclIO::EclFile {
    using EclIO::EclFile::EclFile;
    const std::vector<std::uint64_t>& dataOffsets() const { return ifStreamPos; }
};

// ---------------------------------------------------------------------------------------------
// oracle pieces
// ---------------------------------------------------------------------------------------------
static bool ixTruncClass(const Case& cs, double v) {           // known defect 6.7
    if (!(cs.fmt && cs.ix) || !std::isfinite(v) || !(v < 0)) return false;
    return std::abs(eref::sci_digits(v, 14).exp10) >= 100;
}
static bool denormalTextClass(const Case& cs, double v) {      // printed value is below the normal range
    if (!cs.fmt || !std::isfinite(v) || v == 0.0) return false;
    double t; if (!eref::parse_real_token(eref::text_doub(v, cs.ix), t)) return false;
    return t != 0.0 ? std::fabs(t) < DBL_MIN : true;
}

struct Cmp { bool ok = true; long firstBad = -1; std::string why; };

// got vs written, formatted tolerance: half a unit of the last printed digit (8 resp. 14 significant
// digits) plus the rounding of the reader's own conversion (one ulp of the element type).
static bool realClose(float got, float orig, double& errUnits) {
    errUnits = 0;
    if (std::isnan(orig)) return std::isnan(got);
    if (std::isinf(orig)) return got == orig;
    if (!std::isfinite(got)) return false;
    const double hu = eref::printed_half_unit(orig, 8);
    const double ulp = (double)std::nextafterf(std::fabs(orig), INFINITY) - (double)std::fabs(orig);
    const double err = std::fabs((double)got - (double)orig);
    if (hu > 0) errUnits = err / hu;
    return err <= hu * (1 + 1e-6) + ulp;
}
static bool doubClose(double got, double orig, double& errUnits) {
    errUnits = 0;
    if (std::isnan(orig)) return std::isnan(got);
    if (std::isinf(orig)) return got == orig;
    if (!std::isfinite(got)) return false;
    const double hu = eref::printed_half_unit(orig, 14);
    const double a = std::fabs(orig);
    const double ulp = a < DBL_MAX ? std::nextafter(a, INFINITY) - a : a - std::nextafter(a, 0.0);
    const double err = std::fabs(got - orig);
    if (hu > 0) errUnits = err / hu;
    return err <= hu * (1 + 1e-6) + 2 * ulp;
}

// compare a decoded array with the written one; formatted files compare reals by printed precision
static Cmp compareArray(const Case& cs, const eref::Array& want, const eref::Array& got, vh::Reporter& rep, const char* who) {
    Cmp c; char b[256];
    if (!cs.fmt || (want.type != eref::REAL && want.type != eref::DOUB)) {
        c.ok = eref::equal_exact(want, got, c.why);
        if (!c.ok) { size_t p = c.why.find("element "); if (p != std::string::npos) c.firstBad = atol(c.why.c_str() + p + 8); }
        return c;
    }
    if (want.name != got.name || want.type != got.type || want.count() != got.count()) { c.ok = eref::equal_exact(want, got, c.why); return c; }
    double maxUnits = 0;
    bool witnessOutsideKnownClass = false;
    for (int64_t k = 0; k < want.count() && !witnessOutsideKnownClass; ++k) {
        double eu = 0; bool ok;
        if (want.type == eref::REAL) {
            ok = realClose(got.rv[k], want.rv[k], eu);
            // the printed text itself (before any conversion to float) is within half a unit of its last digit
            if (ok && !got.rtext.empty() && std::isfinite(want.rv[k])) {
                const double hu = eref::printed_half_unit(want.rv[k], 8);
                if (std::fabs(got.rtext[k] - (double)want.rv[k]) > hu * (1 + 1e-6)) ok = false;
            }
            if (!ok) snprintf(b, sizeof b, "element %lld: read %.9g, written %.9g", (long long)k, got.rv[k], want.rv[k]);
        } else {
            ok = doubClose(got.dv[k], want.dv[k], eu);
            if (!ok) snprintf(b, sizeof b, "element %lld: read %.17g, written %.17g", (long long)k, got.dv[k], want.dv[k]);
        }
        if (ok) { maxUnits = std::max(maxUnits, eu); continue; }
        // keep the first disagreement, but prefer a witness outside the known defect class
        const bool known = want.type == eref::DOUB && ixTruncClass(cs, want.dv[k]);
        if (c.ok || !known) { c.firstBad = (long)k; c.why = b; }
        c.ok = false;
        if (!known) witnessOutsideKnownClass = true;
    }
    rep.maxof(std::string("max_err_in_half_units_of_last_digit_") + eref::type_name(want.type) + "_" + who, maxUnits);
    return c;
}

// key for a value disagreement of array `want` at element k
static std::string valueKey(const Case& cs, const eref::Array& want, long k, const std::string& generic) {
    if (want.type == eref::DOUB && k >= 0 && k < (long)want.dv.size() && ixTruncClass(cs, want.dv[k])) return KEY_IX_TRUNC;
    return generic + ":" + cs.tag() + ":" + eref::type_name(want.type);
}

static std::string lenClass(eref::Type t, long n) {
    const long B = eref::block_elems(t);
    if (n == 0) return "0";
    const long m = n % B;
    std::string k = n < B ? "<block" : (n < 2 * B ? "1-2 blocks" : (n <= 2 * B + 2 ? "2 blocks(+2)" : ">2 blocks"));
    if (m == 0) return k + ",mod=0";
    if (m == 1) return k + ",mod=1";
    if (m == B - 1) return k + ",mod=block-1";
    return k;
}

// read the library's copy of array i out of an EclFile into an eref::Array
static eref::Array libGet(IndexedEclFile& f, int i, const EclIO::EclFile::EclEntry& e, int elemSize) {
    eref::Array a;
    a.name = std::get<0>(e);
    switch (std::get<1>(e)) {
    case EclIO::INTE: { a.type = eref::INTE; const auto& v = f.get<int>(i); a.iv.assign(v.begin(), v.end()); break; }
    case EclIO::REAL: { a.type = eref::REAL; a.rv = f.get<float>(i); break; }
    case EclIO::DOUB: { a.type = eref::DOUB; a.dv = f.get<double>(i); break; }
    case EclIO::LOGI: { a.type = eref::LOGI; const auto& v = f.get<bool>(i); a.lv.resize(v.size()); for (size_t k = 0; k < v.size(); ++k) a.lv[k] = v[k]; break; }
    case EclIO::CHAR: { a.type = eref::CHAR; a.sv = f.get<std::string>(i); break; }
    case EclIO::C0NN: { a.type = eref::C0NN; a.width = elemSize; a.sv = f.get<std::string>(i); break; }
    case EclIO::MESS: a.type = eref::MESS; break;
    }
    return a;
}

struct Checker {
    vh::Reporter& rep;
    const Case& cs;
    std::string witness;
    bool reportedKnownDenormal = false;
    void viol(const std::string& key, const std::string& what) { rep.violation(key, what, witness + what + "\n"); }

    // (c) EclFile on `path`, whose reference index is `idx`
    void libRead(const std::string& path, const std::vector<eref::Entry>& idx, uint64_t fileSize, const char* who, Rng& rng) {
        const std::string W = who;
        const bool isRefFile = W != "lib-read";
        bool poison = false;      // arrays the reader is known not to get through: whole-file loading is then skipped
        for (const auto& s : cs.arrs) if (s.a.type == eref::DOUB) for (double v : s.a.dv) if (denormalTextClass(cs, v)) poison = true;
        int mode = (int)rng.below(4);
        if (poison) mode = 0;
        static const char* MODE[] = {"get(index) lazily", "constructor preload", "loadData()", "loadData(name)"};
        rep.cover("reader_mode", MODE[mode]);
        std::unique_ptr<IndexedEclFile> fp;
        try {
            fp.reset(new IndexedEclFile(path, EclIO::EclFile::Formatted{cs.fmt}, mode == 1));
            if (mode == 2) fp->loadData();
            if (mode == 3) for (const auto& s : cs.arrs) fp->loadData(s.a.name);
        } catch (const std::exception& e) {
            viol(W + "-open-threw:" + cs.tag(), std::string("EclFile (") + MODE[mode] + ") threw on a file " + (W == "lib-read" ? "written by EclOutput" : "written by the reference encoder") + ": " + std::string(e.what()).substr(0, 300));
            return;
        }
        IndexedEclFile& f = *fp;
        const auto list = f.getList();
        rep.count("comparisons_list");
        if (list.size() != cs.arrs.size()) { viol(W + "-list:" + cs.tag(), "EclFile lists " + std::to_string(list.size()) + " arrays, " + std::to_string(cs.arrs.size()) + " were written"); return; }
        const auto& es = f.getElementSizeList();
        const auto& off = f.dataOffsets();
        std::vector<int> order(list.size()); std::iota(order.begin(), order.end(), 0); rng.shuffle(order);
        // index: names, types, lengths, data offsets
        for (size_t i = 0; i < list.size(); ++i) {
            const auto& want = cs.arrs[i].a;
            const std::string tn = eref::type_name(want.type);
            if (std::get<0>(list[i]) != want.name || std::get<1>(list[i]) != libType(want.type) || std::get<2>(list[i]) != want.count() ||
                (want.type == eref::C0NN && es[i] != want.width)) {
                viol(W + "-list:" + cs.tag() + ":" + tn, "array " + std::to_string(i) + " listed as '" + std::get<0>(list[i]) + "' " + libTypeName(std::get<1>(list[i])) + " n=" + std::to_string(std::get<2>(list[i])) +
                     " elemsize=" + std::to_string(es[i]) + ", written " + eref::describe(want, 0));
                return;
            }
            rep.count("comparisons_index");
            if (off.size() != list.size() + 1 || off[i] != idx[i].data_off)
                viol("index-offset:" + std::string(cs.fmt ? "fmt" : "unf") + ":" + tn, "EclFile data position of array " + std::to_string(i) + " is " + std::to_string(i < off.size() ? off[i] : 0) +
                     ", the data start at " + std::to_string(idx[i].data_off) + " (" + eref::describe(want, 0) + ")");
        }
        // The extra last entry of the index (end of file) is not compared: on the unchanged tree it is always
        // (uint64)-1 because tellg() is called on a stream in fail state; nothing seeks with it (only
        // seekPosition(index >= size) would return it, and the restart writer treats -1 as "append").
        if (!off.empty() && off.back() != fileSize) rep.count("observed_index_end_entry_not_file_size");
        // values
        for (int i : order) {
            const auto& want = cs.arrs[i].a;
            const std::string tn = eref::type_name(want.type);
            eref::Array got;
            try {
                got = libGet(f, i, list[i], es[i]);
            } catch (const std::exception& e) {
                bool den = false;
                // (in the library's own file a value of the truncation class has lost its last exponent digit and is readable)
                if (want.type == eref::DOUB) for (double v : want.dv) if (denormalTextClass(cs, v) && (isRefFile || !ixTruncClass(cs, v))) den = true;
                viol(den ? std::string(KEY_DENORMAL) : W + "-threw:" + cs.tag() + ":" + tn,
                     "EclFile::get threw for array " + std::to_string(i) + " " + eref::describe(want, 4) + ": " + std::string(e.what()).substr(0, 200));
                continue;
            }
            rep.count("comparisons_libread_arrays"); rep.count("comparisons_libread_elements", (long)want.count());
            Cmp c = compareArray(cs, want, got, rep, "libread");
            if (!c.ok) viol(isRefFile ? W + "-value:" + cs.tag() + ":" + tn : valueKey(cs, want, c.firstBad, W + "-value"), "EclFile returns array " + std::to_string(i) + " " + eref::describe(want, 0) + " differently: " + c.why);
        }
    }
};

// ---------------------------------------------------------------------------------------------
// case construction
// ---------------------------------------------------------------------------------------------
static const eref::Type DATA_TYPES[6] = {eref::INTE, eref::REAL, eref::DOUB, eref::LOGI, eref::CHAR, eref::C0NN};

struct Enumeration { std::vector<long> start; std::vector<std::vector<long>> lens; long total = 0; };   // per (type, fmt, ix) combination
static Enumeration buildEnumeration(bool boundaryOnly) {
    Enumeration en;
    for (int t = 0; t < 6; ++t) for (int fi = 0; fi < 4; ++fi) {
        const long B = eref::block_elems(DATA_TYPES[t]);
        std::vector<long> L;
        if (!boundaryOnly) { for (long n = 0; n <= 2 * B + 2; ++n) L.push_back(n); }
        else {
            const long c = eref::fmt_columns(DATA_TYPES[t], 8);
            for (long n : {0L, 1L, 2L, 3L, c - 1, c, c + 1, B - 1, B, B + 1, 2 * B - 1, 2 * B, 2 * B + 1, 2 * B + 2}) if (n >= 0 && std::find(L.begin(), L.end(), n) == L.end()) L.push_back(n);
        }
        en.start.push_back(en.total); en.lens.push_back(L); en.total += (long)L.size();
    }
    return en;
}

static long randomLength(Rng& r, eref::Type t, long maxlen) {
    const long B = eref::block_elems(t);
    const uint64_t k = r.below(100);
    long n;
    if (k < 35) n = (long)r.below(21);
    else if (k < 70) n = (long)r.below((uint64_t)(2 * B + 3));
    else if (k < 92) n = (long)r.range(1, 20) * B + r.range(-1, 1);
    else n = (long)r.below((uint64_t)maxlen + 1);
    return std::min(n, maxlen);
}

int main(int argc, char** argv) {
    vh::Args args = vh::parse_args(argc, argv);
    vh::Reporter rep(args, "C07");
    const bool boundaryMode = args.get("mode", "full") == "boundary";
    const long maxlen = args.geti("maxlen", 20000);
    const bool wideC0nn = args.geti("wide_c0nn", 0) != 0;      // formatted C0nn wider than 77 characters (one element per line)
    const Enumeration en = buildEnumeration(boundaryMode);
    const long nWide = wideC0nn ? 6 : 0;
    const std::string dir = vh::scratch_dir(args);
    const std::string path = dir + "/lib.dat", pathRef = dir + "/ref.dat";

    rep.run_cases([&](long idx, Rng& rng) {
        // ---- build the case --------------------------------------------------------------------
        Case cs;
        std::string kind;
        if (idx < nWide) {
            // first, because each of these kills the worker on the unchanged tree and a killed worker loses its counters
            const long j = idx;
            static const int W[3] = {78, 80, 99};
            cs.fmt = true; cs.ix = j & 1;
            ArrSpec s; s.a.name = "WIDE"; s.a.type = eref::C0NN; s.a.width = W[j % 3]; s.api = API_STR_WIDTH; s.api_width = W[j % 3];
            s.a.sv = {"first", std::string((size_t)W[j % 3], 'x'), ""};
            cs.arrs.push_back(s);
            kind = "wide-c0nn";
        } else if (idx - nWide < en.total) {
            const long e = idx - nWide;
            size_t c = 0; while (c + 1 < en.start.size() && en.start[c + 1] <= e) ++c;
            const eref::Type t = DATA_TYPES[c / 4];
            cs.fmt = (c % 4) & 1; cs.ix = ((c % 4) >> 1) & 1;
            const long n = en.lens[c][e - en.start[c]];
            if (rng.chance(0.3)) { ArrSpec m; m.a.name = "MSG"; m.a.type = eref::MESS; m.api = API_MESSAGE; cs.arrs.push_back(m); }
            cs.arrs.push_back(genArray(rng, t, n, cs.fmt, "DATA", cs.fmt && !wideC0nn ? 77 : 99));
            ArrSpec tail; tail.a.name = "TAIL"; tail.a.type = eref::INTE; tail.a.iv = {42}; cs.arrs.push_back(tail);
            kind = "enumerated";
            rep.cover(std::string("enumerated_lengths_") + eref::type_name(t), cs.tag());
        } else {
            cs.fmt = rng.chance(0.5); cs.ix = rng.chance(0.5);
            const int na = 1 + (int)rng.below(8);
            for (int i = 0; i < na; ++i) {
                if (rng.chance(0.12)) { ArrSpec m; m.a.name = genName(rng); m.a.type = eref::MESS; m.api = API_MESSAGE; cs.arrs.push_back(m); continue; }
                const eref::Type t = DATA_TYPES[rng.below(6)];
                cs.arrs.push_back(genArray(rng, t, randomLength(rng, t, maxlen), cs.fmt, genName(rng), cs.fmt && !wideC0nn ? 77 : 99));
            }
            kind = "random";
        }
        rep.cover("case_kind", kind);
        rep.cover("format", cs.tag());
        std::vector<eref::Array> model;
        long nelem = 0;
        for (const auto& s : cs.arrs) {
            model.push_back(s.a); nelem += (long)s.a.count();
            rep.cover("type", eref::type_name(s.a.type));
            rep.cover("api", API_NAME[s.api]);
            if (s.a.type != eref::MESS) rep.cover(std::string("length_class_") + eref::type_name(s.a.type), lenClass(s.a.type, (long)s.a.count()));
            if (s.a.type == eref::C0NN) rep.cover("c0nn_width", s.a.width <= 8 ? "8" : (s.a.width < 30 ? "9-29" : (s.a.width < 78 ? "30-77" : "78-99")));
            if (s.a.type == eref::DOUB) for (double v : s.a.dv) {
                if (!std::isfinite(v)) rep.count("doub_nonfinite");
                else if (v != 0 && std::abs(eref::sci_digits(v, 14).exp10) >= 99) rep.count("doub_3digit_exponent");
                if (std::isfinite(v) && v != 0 && std::fabs(v) < DBL_MIN) rep.count("doub_denormal");
            }
            if (s.a.type == eref::REAL) for (float v : s.a.rv) { if (!std::isfinite(v)) rep.count("real_nonfinite"); else if (v != 0 && std::fabs(v) < FLT_MIN) rep.count("real_denormal"); }
            if (s.a.type == eref::INTE) for (int v : s.a.iv) if (v == INT_MIN || v == INT_MAX) rep.count("inte_extreme");
        }
        rep.count("arrays", (long)cs.arrs.size()); rep.count("elements", nelem);
        rep.maxof("max_array_length", [&] { double m = 0; for (auto& a : model) m = std::max<double>(m, (double)a.count()); return m; }());

        // ---- reference encoding ----------------------------------------------------------------
        std::string refBytes; std::vector<uint64_t> refStart;
        for (const auto& a : model) { refStart.push_back(refBytes.size()); if (cs.fmt) eref::encode_formatted_array(refBytes, a, cs.ix); else eref::encode_unformatted_array(refBytes, a, cs.ix); }
        refStart.push_back(refBytes.size());
        uint64_t h = vh::fnv(refBytes, vh::fnv(cs.tag()));
        rep.case_done(h, nelem > 0);
        if (idx == nWide || idx == en.total + nWide) rep.sample(cs.text(4) + "first bytes of the file: " + vh::jstr(refBytes.substr(0, 120)));

        Checker ck{rep, cs, cs.text()};
        rep.journal_note(cs.text(3));

        // ---- run the library writer ------------------------------------------------------------
        ::unlink(path.c_str());
        try {
            libWrite(path, cs);
        } catch (const std::exception& e) {
            ck.viol("write-threw:" + cs.tag(), std::string("EclOutput threw: ") + std::string(e.what()).substr(0, 300));
            return;
        }
        const std::string libBytes = vh::read_file(path);
        rep.count("bytes_written", (long)libBytes.size());

        // ---- (a) reference decoder on the library's bytes --------------------------------------
        std::vector<eref::Array> dec; std::vector<eref::Entry> idxLib; std::string err;
        const bool decoded = cs.fmt ? eref::decode_formatted(libBytes, dec, idxLib, err) : eref::decode_unformatted(libBytes, dec, idxLib, err);
        if (!decoded) {
            std::string t = dec.size() < cs.arrs.size() ? eref::type_name(cs.arrs[dec.size()].a.type) : "-";
            ck.viol("layout:" + cs.tag() + ":" + t, "the file written by EclOutput does not follow the layout: " + err + " (while decoding array " + std::to_string(dec.size()) + ")");
        } else if (dec.size() != model.size()) {
            ck.viol("layout-count:" + cs.tag(), "the file holds " + std::to_string(dec.size()) + " arrays, " + std::to_string(model.size()) + " were written");
        } else {
            for (size_t i = 0; i < model.size(); ++i) {
                rep.count("comparisons_refdecode_arrays"); rep.count("comparisons_refdecode_elements", (long)model[i].count());
                if (!idxLib[i].canonical) ck.viol("layout-short-record:" + cs.tag() + ":" + eref::type_name(model[i].type), "array " + std::to_string(i) + " has a data record that is neither full nor the last one");
                Cmp c = compareArray(cs, model[i], dec[i], rep, "ondisk");
                if (!c.ok) ck.viol(valueKey(cs, model[i], c.firstBad, "on-disk-value"), "array " + std::to_string(i) + " " + eref::describe(model[i], 0) + " is on disk as something else: " + c.why);
            }
        }

        // ---- (b) byte-for-byte against the reference encoding ----------------------------------
        rep.count("comparisons_bytes");
        const bool sameBytes = libBytes == refBytes;
        if (!sameBytes) {
            rep.count("files_differing_from_reference_encoding");
            // attribute the difference to arrays; when all sizes agree the regions can be compared one by one
            bool attributed = false;
            if (decoded && dec.size() == model.size()) {
                bool sameIdx = true;
                for (size_t i = 0; i < model.size(); ++i) if (idxLib[i].header_off != refStart[i] || idxLib[i].end_off != refStart[i + 1]) sameIdx = false;
                if (sameIdx) {
                    attributed = true;
                    for (size_t i = 0; i < model.size(); ++i) {
                        const auto& a = model[i];
                        const std::string L = libBytes.substr(refStart[i], refStart[i + 1] - refStart[i]), R = refBytes.substr(refStart[i], refStart[i + 1] - refStart[i]);
                        if (L == R) continue;
                        const uint64_t hdr = cs.fmt ? 31 : 24;
                        size_t d = 0; while (d < L.size() && L[d] == R[d]) ++d;
                        std::string key = "bytes:" + cs.tag() + ":" + eref::type_name(a.type), what;
                        if (d < hdr) { key = "bytes-header:" + cs.tag(); what = "header of array " + std::to_string(i) + " differs: " + vh::jstr(L.substr(0, hdr)) + " vs reference " + vh::jstr(R.substr(0, hdr)); }
                        else if (cs.fmt) {
                            // which elements differ
                            long bad = -1, badKnown = -1; const int w = eref::fmt_width(a.type, a.width);
                            for (int64_t k = 0; k < a.count(); ++k) {
                                const uint64_t o = hdr + eref::formatted_field_offset(a.type, a.width, k);
                                if (L.compare(o, w, R, o, w) != 0) { if (a.type == eref::DOUB && ixTruncClass(cs, a.dv[k])) { if (badKnown < 0) badKnown = (long)k; } else if (bad < 0) bad = (long)k; }
                            }
                            const long k = bad >= 0 ? bad : badKnown;
                            if (bad < 0 && badKnown >= 0) key = KEY_IX_TRUNC;
                            if (k >= 0) { const uint64_t o = hdr + eref::formatted_field_offset(a.type, a.width, k); what = "element " + std::to_string(k) + " of array " + std::to_string(i) + " (" + eref::describe(a, 0) + ") is written as [" + L.substr(o, w) + "], the layout gives [" + R.substr(o, w) + "]"; }
                            else what = "line structure of array " + std::to_string(i) + " (" + eref::describe(a, 0) + ") differs at byte " + std::to_string(d) + " of the array";
                        } else what = "array " + std::to_string(i) + " (" + eref::describe(a, 0) + ") differs from the reference encoding at byte " + std::to_string(d) + " of the array";
                        ck.viol(key, what);
                    }
                }
            }
            if (!attributed) {
                size_t d = 0; while (d < libBytes.size() && d < refBytes.size() && libBytes[d] == refBytes[d]) ++d;
                size_t i = 0; while (i + 1 < refStart.size() && refStart[i + 1] <= d) ++i;
                const std::string t = i < model.size() ? eref::type_name(model[i].type) : "-";
                ck.viol("bytes:" + cs.tag() + ":" + t, "file differs from the reference encoding at byte " + std::to_string(d) + " (sizes " + std::to_string(libBytes.size()) + " vs " + std::to_string(refBytes.size()) + "), in array " + std::to_string(i) +
                        ": " + vh::jstr(libBytes.substr(d > 20 ? d - 20 : 0, 60)) + " vs reference " + vh::jstr(refBytes.substr(d > 20 ? d - 20 : 0, 60)));
            }
        }

        // ---- size arithmetic used for seeking --------------------------------------------------
        for (const auto& a : model) {
            rep.count("comparisons_size_on_disk");
            const uint64_t want = cs.fmt ? eref::formatted_data_bytes(a.type, a.width, a.count()) : eref::unformatted_data_bytes(a.type, a.width, a.count());
            uint64_t got = 0;
            try { got = cs.fmt ? EclIO::sizeOnDiskFormatted(a.count(), libType(a.type), a.type == eref::C0NN ? a.width : (a.type == eref::DOUB || a.type == eref::CHAR ? 8 : 4))
                               : EclIO::sizeOnDiskBinary(a.count(), libType(a.type), a.type == eref::C0NN ? a.width : (a.type == eref::DOUB || a.type == eref::CHAR ? 8 : 4)); }
            catch (const std::exception& e) { ck.viol("size-on-disk-threw:" + std::string(cs.fmt ? "fmt" : "unf"), e.what()); continue; }
            if (got != want) ck.viol("size-on-disk:" + std::string(cs.fmt ? "fmt" : "unf") + ":" + eref::type_name(a.type), "sizeOnDisk gives " + std::to_string(got) + " bytes for " + eref::describe(a, 0) + ", the layout needs " + std::to_string(want));
        }

        // ---- (c) the library's reader ----------------------------------------------------------
        // reference index of the reference encoding (offsets are those of the layout, not of the library)
        std::vector<eref::Entry> idxRef;
        for (size_t i = 0; i < model.size(); ++i) { eref::Entry e; e.header_off = refStart[i]; e.data_off = refStart[i] + (cs.fmt ? 31 : 24); e.end_off = refStart[i + 1]; idxRef.push_back(e); }
        if (sameBytes) ck.libRead(path, idxRef, refBytes.size(), "lib-read", rng);
        else {
            if (decoded && idxLib.size() == model.size()) ck.libRead(path, idxLib, libBytes.size(), "lib-read", rng);
            else rep.count("libread_skipped_undecodable");
            vh::write_file(pathRef, refBytes);
            rep.count("reference_encoded_files_read_by_library");
            ck.libRead(pathRef, idxRef, refBytes.size(), "lib-reads-reference-file", rng);
        }
    });
    rep.finish();
    return 0;
}
