// G-DECK: generator of complete small models (RUNSPEC ... SCHEDULE) with random schedule sections over a
// large part of the schedule handler table.  Used by C03, C04, C11 (and, for the model part, by others).
//
// The generator keeps a small book-keeping model of what the schedule has defined so far (wells with their role
// and cells, groups and tree, well lists, UDQs, MSW wells, actions) so that every keyword it writes is valid
// input at that point.  The schedule is kept *structured*: a list of report-step blocks, each a list of
// keyword instances (name + complete text), so that harnesses can cut, splice and inline at keyword level.
#pragma once
#include "vh.hpp"
#include <algorithm>

namespace gdeck {
using vh::Rng;

struct KwInst {
    std::string name;     // keyword name (ACTIONX for a whole ACTIONX...ENDACTIO block)
    std::string text;     // complete text incl. terminating slash / ENDACTIO
};

// an ACTIONX body keyword in structured form ('?' in a record is the matched-well placeholder)
struct BodyKw {
    std::string name;
    std::vector<std::string> records;  // each "... /" (one line)
    bool perWell = false;              // records contain the '?' placeholder
    bool listInPlace = false;          // '?' stands for a list of wells inside one record (WLIST): expand in place
    bool closing = true;               // keyword terminated by a lone "/"
    std::string render(const std::vector<std::string>* wellsForPlaceholder) const {
        std::string s = name + "\n";
        for (auto& r : records) {
            size_t p = r.find("'?'");
            if (p != std::string::npos && wellsForPlaceholder && listInPlace) {
                std::string names;
                for (auto& w : *wellsForPlaceholder) names += "'" + w + "' ";
                std::string rr = r; rr.replace(p, 3, names); s += " " + rr + "\n";
            } else if (p != std::string::npos && wellsForPlaceholder) {
                for (auto& w : *wellsForPlaceholder) { std::string rr = r; rr.replace(p, 3, "'" + w + "'"); s += " " + rr + "\n"; }
            } else s += " " + r + "\n";
        }
        if (closing) s += "/\n";
        return s;
    }
};
struct ActionM {
    std::string name;
    int maxRun = 1;
    double minWait = 0;
    std::string condition;          // complete condition lines, each "... /"? no: lines without slash, joined, then "/"
    std::vector<BodyKw> body;
    int definedAtStep = 0;
    std::string render() const {
        std::ostringstream s;
        s << "ACTIONX\n '" << name << "' " << maxRun << " " << minWait << " /\n" << condition << "/\n";
        for (auto& b : body) s << b.render(nullptr);
        s << "ENDACTIO\n";
        return s.str();
    }
};

struct StepM {
    std::vector<KwInst> kws;        // keywords of this report step (before the time keyword)
    std::string timeKw;             // "TSTEP\n 10 /\n" or "DATES\n 1 FEB 2020 /\n/\n"
    double days = 0;
};

struct WellM {
    std::string name, group;
    int i = 1, j = 1;               // 1-based heel
    bool producer = true;
    std::string injPhase = "WATER";
    bool hist = false;              // controlled through WCONHIST / WCONINJH
    std::vector<int> ks;            // connected layers (1-based)
    bool msw = false;
    bool hasControl = false;
    struct SegM { int num, branch, outlet; double length, depth; };
    std::vector<SegM> segs;         // WELSEGS records of a multi-segment well (ABS lengths and depths), in the order written
};

struct Opts {
    int minSteps = 3, maxSteps = 8;
    int maxKwPerStep = 5;
    bool actions = true;
    bool msw = true;
    bool udq = true;
    bool network = true;
    bool geoModifiers = true;
    bool exoticRunspec = false;     // random optional phases, RUNSPEC options and RPTSOL/RPTRST mnemonics (rarely used flag bits)
    bool restartSafeOnly = false;   // restrict to the keyword set the restart machinery supports (C05)
    int unitSystem = -1;            // -1 random, 0 METRIC, 1 FIELD, 2 LAB
    bool histWells = true;
    bool wpimult = true;            // WPIMULT is applied when its report step closes (C04 exempts it)
    bool richSummary = false;       // random SUMMARY section (opt-in: changes the random stream)
    bool vfpDefaultAlq = false;     // VFPPROD item 7 defaulted in 40 % of the tables (its meaning follows LIFTOPT; opt-in: changes the random stream)
    bool actionWpimult = false;     // WPIMULT inside ACTIONX bodies (two more body templates; changes the random stream, so opt-in)
};

struct Model {
    int nx = 5, ny = 5, nz = 3;
    std::string units = "METRIC";
    std::vector<int> actnum;
    std::vector<WellM> wells;
    std::vector<std::pair<std::string, std::string>> groups;   // (name, parent)
    std::vector<std::string> wlists;
    std::vector<std::string> udqAssigned, udqDefined;
    std::vector<ActionM> actions;
    std::vector<StepM> steps;
    std::string startDate = "1 'JAN' 2020";
    bool hasNetwork = false, hasLiftOpt = false, hasVfp = false, hasGuiderat = false, hasBccon = false;
    std::vector<int> vfpIds;
    std::string summarySection;     // extra SUMMARY keywords
    std::string runspecExtra, solutionExtra, gridExtra;   // optional phases / options / report requests (Opts::exoticRunspec)
    std::string staticPart() const;
    std::string scheduleText(size_t nsteps = (size_t)-1) const;
    std::string text() const { return staticPart() + "SCHEDULE\n" + scheduleText(); }
};

inline std::string fmtd(double v) { char b[40]; snprintf(b, sizeof b, "%.6g", v); return b; }

inline std::string Model::staticPart() const {
    std::ostringstream s;
    const int n = nx * ny * nz;
    s << "RUNSPEC\nTITLE\n gdeck model\nDIMENS\n " << nx << " " << ny << " " << nz << " /\nOIL\nGAS\nWATER\nDISGAS\n" << units << "\n" << runspecExtra;
    s << "START\n " << startDate << " /\nWELLDIMS\n 30 20 15 30 /\nWSEGDIMS\n 5 30 10 /\nTABDIMS\n/\nEQLDIMS\n/\nREGDIMS\n 3 /\n";
    s << "UDQDIMS\n 50 50 10 10 10 10 10 10 10 10 10 /\nUDADIMS\n 20 1* 20 /\nACTDIMS\n 20 50 80 10 /\nVFPPDIMS\n 10 10 10 10 10 5 /\nVFPIDIMS\n 10 10 5 /\n";
    if (hasNetwork) s << "NETWORK\n 10 10 /\n";
    if (hasLiftOpt) s << "LIFTOPT\n 12500 5E-3 37. YES /\n" ;   // (placed in SCHEDULE by the generator; kept for completeness)
    s << "UNIFOUT\nUNIFIN\nGRID\nINIT\n";
    s << "DX\n " << n << "*100 /\nDY\n " << n << "*100 /\nDZ\n " << n << "*10 /\nTOPS\n " << nx * ny << "*2000 /\n";
    s << "PERMX\n " << n << "*100 /\nPERMY\n " << n << "*100 /\nPERMZ\n " << n << "*10 /\nPORO\n " << n << "*0.25 /\n";
    s << gridExtra;
    if (!actnum.empty()) { s << "ACTNUM\n"; for (size_t q = 0; q < actnum.size(); ++q) s << " " << actnum[q] << ((q + 1) % 40 == 0 ? "\n" : ""); s << " /\n"; }
    s << "PROPS\nDENSITY\n 860 1033 0.85 /\nPVTW\n 277 1.03 4.0E-5 0.3 0 /\nROCK\n 277 4.8E-5 /\n";
    s << "SWOF\n 0.2 0 1 0\n 0.5 0.2 0.3 0\n 1.0 1.0 0 0 /\nSGOF\n 0 0 1 0\n 0.4 0.3 0.2 0\n 0.8 1 0 0 /\n";
    s << "PVDG\n 20 0.06 0.015\n 100 0.012 0.017\n 400 0.004 0.025 /\nPVTO\n 20 50 1.15 1.2\n 100 1.14 1.3 /\n 100 150 1.4 0.9\n 300 1.35 1.0 /\n/\n";
    s << "REGIONS\nFIPNUM\n " << n << "*1 /\nSOLUTION\nEQUIL\n 2000 200 2100 0 1900 0 1 /\nRSVD\n 1000 100\n 3000 100 /\n" << solutionExtra << "SUMMARY\nFOPR\nFOPT\nWOPR\n/\nWBHP\n/\nGOPR\n/\n" << summarySection << "\n";
    return s.str();
}

inline std::string Model::scheduleText(size_t nsteps) const {
    std::string s;
    for (size_t i = 0; i < steps.size() && i < nsteps; ++i) {
        for (auto& k : steps[i].kws) s += k.text;
        s += steps[i].timeKw;
    }
    return s;
}

// -----------------------------------------------------------------------------------------------------------
class Generator {
public:
    Generator(Rng& r, const Opts& o) : rng(r), opt(o) {}

    Model generate() {
        Model m;
        m.nx = 3 + (int)rng.below(4); m.ny = 3 + (int)rng.below(4); m.nz = 2 + (int)rng.below(4);
        int us = opt.unitSystem >= 0 ? opt.unitSystem : (int)rng.below(3);
        m.units = us == 0 ? "METRIC" : (us == 1 ? "FIELD" : "LAB");
        if (rng.chance(0.5)) {
            m.actnum.assign(m.nx * m.ny * m.nz, 1);
            for (auto& a : m.actnum) if (rng.chance(0.1)) a = 0;
        }
        m.hasNetwork = opt.network && rng.chance(0.3);
        M = &m;
        if (opt.exoticRunspec) {
            // each independently: phases beyond oil/gas/water, options held in small flag sets, report mnemonics
            static const char* RS[] = {"BRINE\n", "SOLVENT\n", "POLYMER\n", "FOAM\n", "ENDSCALE\n 'NODIR' 'REVERS' /\n", "ENDSCALE\n 'DIRECT' 'IRREVERS' /\n",
                                       "NOSIM\n", "FMTOUT\n", "FMTIN\n", "NONNC\n", "GRIDOPTS\n 'YES' /\n", "TRACERS\n 1 1 1 /\n", "SATOPTS\n 'DIRECT' /\n", "MSGFILE\n 1 /\n"};
            for (const char* k : RS) if (rng.chance(0.2)) { if (std::string(k).rfind("ENDSCALE", 0) == 0 && m.runspecExtra.find("ENDSCALE") != std::string::npos) continue; m.runspecExtra += k; }
            static const char* FIP[] = {"FIP=1", "FIP=2", "FIP=3", "FIPFOAM=2", "FIPPLY=2", "FIPRESV", "FIPSOL=2", "FIPTEMP=2", "FIPSURF=2", "FIPTR=2", "FIPVE", "RESTART=2", "PRES", "SOIL", "SWAT"};
            // boundary condition faces (BCCON) for the SCHEDULE keyword BCPROP
            if (rng.chance(0.4)) { m.gridExtra = "BCCON\n 1 1 1 1 " + std::to_string(m.ny) + " 1 " + std::to_string(m.nz) + " 'X-' /\n 2 " + std::to_string(m.nx) + " " + std::to_string(m.nx) + " 1 " + std::to_string(m.ny) + " 1 " + std::to_string(m.nz) + " 'X' /\n/\n"; m.hasBccon = true; }
            // an analytic aquifer below the bottom layer (cell ranges are what the C20 boundary sweep steps through)
            if (rng.chance(0.3)) {
                m.runspecExtra += "AQUDIMS\n 1 1 2 36 2 200 /\n";
                m.solutionExtra += std::string(rng.chance(0.5) ? "AQUFETP\n 1 2100 250 1E8 1E-5 50 1 /\n/\n" : "AQUCT\n 1 2100 250 100 0.2 1E-5 1000 20 90 1 1 /\n/\n");
                m.solutionExtra += "AQUANCON\n 1 1 " + std::to_string(m.nx) + " 1 " + std::to_string(m.ny) + " " + std::to_string(m.nz) + " " + std::to_string(m.nz) + " 'K+' " + (rng.chance(0.5) ? "1* 1*" : "500 1.5") + " " + (rng.chance(0.5) ? "'YES'" : "'NO'") + " /\n/\n";
            }
            if (rng.chance(0.6)) { m.solutionExtra += "RPTSOL\n"; for (const char* f : FIP) if (rng.chance(0.3)) m.solutionExtra += std::string(" ") + f; m.solutionExtra += " /\n"; }
        }
        int nsteps = opt.minSteps + (int)rng.below(opt.maxSteps - opt.minSteps + 1);
        // groups: node groups N* (may hold groups only) and well groups G* (hold wells only; the library refuses mixing)
        int nn = (int)rng.below(3);
        for (int g = 0; g < nn; ++g) m.groups.push_back({"N" + std::to_string(g + 1), g == 0 || rng.chance(0.5) ? "FIELD" : "N" + std::to_string(1 + rng.below(g))});
        int ng = 1 + (int)rng.below(4);
        for (int g = 0; g < ng; ++g) m.groups.push_back({"G" + std::to_string(g + 1), nn == 0 || rng.chance(0.4) ? "FIELD" : "N" + std::to_string(1 + rng.below(nn))});
        for (int st = 0; st < nsteps; ++st) {
            StepM step;
            curStep = st;
            if (st == 0) firstStep(step);
            int nk = (int)rng.below(opt.maxKwPerStep + 1);
            for (int q = 0; q < nk; ++q) randomKeyword(step);
            // time keyword: TSTEP, or DATES with the first day of a later month (never earlier than the current time)
            if (rng.chance(0.7)) { double d = rng.chance(0.5) ? 10 : (double)(1 + rng.below(60)); step.days = d; step.timeKw = "TSTEP\n " + fmtd(d) + " /\n"; day += d; }
            else {
                int y, mo, dd; civil((long)std::floor(day), y, mo, dd);
                mo += 1 + (int)rng.below(2); while (mo > 12) { mo -= 12; ++y; }
                double nd = (double)daysFromCivil(y, mo, 1);
                step.days = nd - day; day = nd;
                step.timeKw = "DATES\n 1 '" + monthName(mo - 1) + "' " + std::to_string(y) + " /\n/\n";
            }
            m.steps.push_back(step);
        }
        if (opt.richSummary) m.summarySection = randomSummary(m);
        return m;
    }

    // SUMMARY requests of every category in random order and number (field, group, well, region incl. the ROEW family that
    // SummaryConfig sorts behind everything else, block, connection, aquifer, the keywords without data)
    std::string randomSummary(const Model& m) {
        std::vector<std::string> ks;
        auto some = [&](const std::vector<const char*>& v, int maxn) { std::vector<std::string> r; int n = (int)rng.below(maxn + 1); for (int i = 0; i < n; ++i) r.push_back(v[rng.below(v.size())]); return r; };
        for (auto& k : some({"FOPR", "FWCT", "FGOR", "FPR", "FOIP", "FWIR", "FVPR", "FMWPR", "TCPU", "ELAPSED", "DATE", "RUNSUM", "SEPARATE", "PERFORMA", "ALL", "FWPT", "FGIT", "YEARS", "TIMESTEP"}, 4)) ks.push_back(k + "\n");
        for (auto& k : some({"WOPT", "WWCT", "WTHP", "WGOR", "WPI", "WWIR", "WGPT", "WVPR", "WSTAT", "WMCTL"}, 3)) {
            std::string t = k + "\n";
            if (!m.wells.empty() && rng.chance(0.5)) { int n = 1 + (int)rng.below(2); for (int i = 0; i < n; ++i) t += " '" + m.wells[rng.below(m.wells.size())].name + "'"; }
            ks.push_back(t + " /\n");
        }
        for (auto& k : some({"GOPT", "GWIR", "GGPR", "GWCT", "GVPR"}, 2)) ks.push_back(k + (rng.chance(0.5) || m.groups.empty() ? "\n /\n" : "\n '" + m.groups[rng.below(m.groups.size())].first + "' /\n"));
        for (auto& k : some({"ROIP", "RPR", "ROEW", "RWIP", "ROPT", "ROEW", "RGIP", "ROFT", "RWFT", "ROEW"}, 3)) ks.push_back(k + (rng.chance(0.4) ? "\n /\n" : rng.chance(0.5) ? "\n 1 /\n" : "\n 1 2 /\n"));
        for (auto& k : some({"BPR", "BOSAT", "BWSAT", "BGSAT"}, 2)) ks.push_back(k + "\n 1 1 1 /\n " + std::to_string(m.nx) + " " + std::to_string(m.ny) + " " + std::to_string(m.nz) + " /\n/\n");
        if (!m.wells.empty()) for (auto& k : some({"COFR", "CWFR", "CGFR", "CPR"}, 2)) { const auto& w = m.wells[rng.below(m.wells.size())]; ks.push_back(k + "\n '" + w.name + "'" + (rng.chance(0.5) || w.ks.empty() ? "" : " " + std::to_string(w.i) + " " + std::to_string(w.j) + " " + std::to_string(w.ks[0])) + " /\n/\n"); }
        for (auto& k : some({"AAQR", "AAQT", "AAQP"}, 1)) ks.push_back(k + "\n 1 /\n");
        rng.shuffle(ks);
        std::string r; for (auto& k : ks) r += k;
        return r;
    }

    // a random ACTIONX body (also used by C04 directly)
    std::vector<BodyKw> actionBody(int nkw) {
        std::vector<BodyKw> body;
        for (int q = 0; q < nkw; ++q) { BodyKw b; if (actionBodyKeyword(b)) body.push_back(b); }
        return body;
    }

    Model* M = nullptr;
    int curStep = 0;

private:
    Rng& rng;
    Opts opt;
    double day = 0;
    int wellCounter = 0, actionCounter = 0;

    // days since 1 JAN 2020 <-> civil date (proleptic Gregorian)
    static long daysFromCivil(int y, int m, int d) {
        auto dfc = [](int yy, int mm, int ddd) { yy -= mm <= 2; long era = (yy >= 0 ? yy : yy - 399) / 400; unsigned yoe = (unsigned)(yy - era * 400); unsigned doy = (153 * (mm + (mm > 2 ? -3 : 9)) + 2) / 5 + ddd - 1; unsigned doe = yoe * 365 + yoe / 4 - yoe / 100 + doy; return era * 146097 + (long)doe - 719468; };
        return dfc(y, m, d) - dfc(2020, 1, 1);
    }
    static void civil(long days, int& y, int& m, int& d) {
        long z = days + 18262 + 719468;   // 18262 = days from 1970-01-01 to 2020-01-01
        long era = (z >= 0 ? z : z - 146096) / 146097; unsigned doe = (unsigned)(z - era * 146097); unsigned yoe = (doe - doe / 1460 + doe / 36524 - doe / 146096) / 365;
        y = (int)yoe + (int)era * 400; unsigned doy = doe - (365 * yoe + yoe / 4 - yoe / 100); unsigned mp = (5 * doy + 2) / 153; d = (int)(doy - (153 * mp + 2) / 5 + 1); m = (int)(mp < 10 ? mp + 3 : mp - 9); y += m <= 2;
    }
    static std::string monthName(int m) { static const char* n[] = {"JAN", "FEB", "MAR", "APR", "MAY", "JUN", "JUL", "AUG", "SEP", "OCT", "NOV", "DEC"}; return n[m % 12]; }
    std::string q(const std::string& s) { return "'" + s + "'"; }
    void add(StepM& st, const std::string& name, const std::string& text) { st.kws.push_back({name, text}); }

    bool cellActive(int i, int j, int k) const {
        if (M->actnum.empty()) return true;
        return M->actnum[(size_t)(k - 1) * M->nx * M->ny + (size_t)(j - 1) * M->nx + (i - 1)] != 0;
    }
    std::string rate() { return fmtd((double)(50 + rng.below(950))); }
    std::string bhpLow() { return fmtd((double)(50 + rng.below(100))); }
    std::string bhpHigh() { return fmtd((double)(300 + rng.below(200))); }
    std::string frac() { return fmtd(0.1 * (1 + rng.below(9))); }

    WellM* anyWell() { return M->wells.empty() ? nullptr : &M->wells[rng.below(M->wells.size())]; }
    WellM* anyProducer() { std::vector<WellM*> v; for (auto& w : M->wells) if (w.producer && !w.hist) v.push_back(&w); return v.empty() ? nullptr : v[rng.below(v.size())]; }
    WellM* anyInjector() { std::vector<WellM*> v; for (auto& w : M->wells) if (!w.producer && !w.hist) v.push_back(&w); return v.empty() ? nullptr : v[rng.below(v.size())]; }
    std::string anyGroup(bool allowField = false) { if (allowField && rng.chance(0.2)) return "FIELD"; return M->groups[rng.below(M->groups.size())].first; }
    std::string wellGroup() { std::vector<std::string> v; for (auto& g : M->groups) if (g.first[0] == 'G') v.push_back(g.first); return v[rng.below(v.size())]; }
    std::vector<std::string> nodeGroups() { std::vector<std::string> v; for (auto& g : M->groups) if (g.first[0] == 'N') v.push_back(g.first); return v; }
    int nWellGroups() { int n = 0; for (auto& g : M->groups) if (g.first[0] == 'G') ++n; return n; }
    // a well name or a pattern / list matching at least one existing well
    std::string wellOrPattern() {
        WellM* w = anyWell();
        if (!w) return "W*";
        int c = (int)rng.below(10);
        if (c == 0) return "W*";
        if (c == 1) return "*";
        if (c == 2 && !M->wlists.empty()) return M->wlists[rng.below(M->wlists.size())];
        return w->name;
    }

    void newWell(StepM& st, bool forceProducer = false, bool forceInjector = false) {
        WellM w;
        // names whose lexicographic order differs from the order of definition (W1, P2, A3, W10 < W2 ...)
        { static const char* pfx[] = {"W", "W", "P", "A"}; ++wellCounter; w.name = std::string(pfx[rng.below(4)]) + std::to_string(wellCounter >= 4 && rng.chance(0.3) ? wellCounter + 7 : wellCounter); for (auto& e : M->wells) if (e.name == w.name) w.name += "X"; }
        w.group = wellGroup();
        for (int tries = 0; tries < 50; ++tries) {
            w.i = 1 + (int)rng.below(M->nx); w.j = 1 + (int)rng.below(M->ny);
            w.ks.clear();
            for (int k = 1; k <= M->nz; ++k) if (cellActive(w.i, w.j, k)) w.ks.push_back(k);
            if (!w.ks.empty()) break;
        }
        if (w.ks.empty()) return;
        w.producer = forceProducer ? true : (forceInjector ? false : rng.chance(0.65));
        w.injPhase = rng.chance(0.7) ? "WATER" : "GAS";
        w.hist = opt.histWells && rng.chance(0.2);
        std::string phase = w.producer ? "OIL" : w.injPhase;
        std::ostringstream s;
        s << "WELSPECS\n " << q(w.name) << " " << q(w.group) << " " << w.i << " " << w.j << " " << (rng.chance(0.5) ? "1*" : fmtd(2000 + rng.below(30))) << " " << q(phase);
        if (rng.chance(0.3)) s << " 1* 'STD' " << (rng.chance(0.5) ? "'SHUT'" : "'STOP'") << " " << (rng.chance(0.5) ? "'YES'" : "'NO'");
        s << " /\n/\n";
        add(st, "WELSPECS", s.str());
        // connections: a random sub-range of the active layers
        size_t a = rng.below(w.ks.size()), b = a + rng.below(w.ks.size() - a);
        std::vector<int> ks(w.ks.begin() + a, w.ks.begin() + b + 1);
        w.ks = ks;
        std::ostringstream c;
        c << "COMPDAT\n";
        for (int k : ks) {
            c << " " << q(w.name) << " " << (rng.chance(0.3) ? "0 0" : std::to_string(w.i) + " " + std::to_string(w.j)) << " " << k << " " << k << " " << (rng.chance(0.85) ? "'OPEN'" : "'SHUT'") << " 1* ";
            int form = (int)rng.below(4);
            if (form == 0) c << "1* 0.2 1* " << fmtd(rng.uniform(-1, 5)) << " 1* 'Z' /\n";
            else if (form == 1) c << fmtd(rng.uniform(1, 50)) << " 0.2 /\n";
            else if (form == 2) c << "1* " << fmtd(rng.uniform(0.1, 0.4)) << " " << fmtd(rng.uniform(100, 5000)) << " 0 1* '" << "XYZ"[rng.below(3)] << "' /\n";
            else c << "1* 0.3 /\n";
        }
        c << "/\n";
        add(st, "COMPDAT", c.str());
        M->wells.push_back(w);
        control(st, M->wells.back());
    }

    void control(StepM& st, WellM& w) {
        std::ostringstream s;
        if (w.producer && w.hist) {
            s << "WCONHIST\n " << q(w.name) << " 'OPEN' '" << (rng.chance(0.5) ? "ORAT" : (rng.chance(0.5) ? "LRAT" : "RESV")) << "' " << rate() << " " << rate() << " " << rate() << " /\n/\n";
            add(st, "WCONHIST", s.str());
        } else if (w.producer) {
            static const char* modes[] = {"ORAT", "WRAT", "GRAT", "LRAT", "RESV", "BHP", "GRUP"};
            std::string mode = modes[rng.below(7)];
            // the limit the mode names is given; each of the others is left out (defaulted) in 35 % of the records, so that the set of
            // active limits of a well varies
            auto opt = [&](const char* need, const std::string& v) { return (mode == need || !rng.chance(0.35)) ? v : std::string("1*"); };
            s << "WCONPROD\n " << q(w.name) << " '" << (rng.chance(0.8) ? "OPEN" : (rng.chance(0.5) ? "SHUT" : "STOP")) << "' '" << mode << "' " << opt("ORAT", rate()) << " " << opt("WRAT", rate()) << " " << opt("GRAT", rate()) << " " << opt("LRAT", rate()) << " " << opt("RESV", rate()) << " " << ((M->hasVfp || mode == "BHP" || !rng.chance(0.25)) ? bhpLow() : std::string("1*"));
            if (M->hasVfp && rng.chance(0.3)) s << " " << fmtd(10 + rng.below(20)) << " " << M->vfpIds[rng.below(M->vfpIds.size())];
            s << " /\n/\n";
            add(st, "WCONPROD", s.str());
        } else if (w.hist) {
            s << "WCONINJH\n " << q(w.name) << " " << q(w.injPhase) << " 'OPEN' " << rate() << " " << bhpHigh() << " /\n/\n";
            add(st, "WCONINJH", s.str());
        } else {
            static const char* modes[] = {"RATE", "RESV", "BHP", "GRUP"};
            const std::string imode = modes[rng.below(4)];
            auto opt = [&](const char* need, const std::string& v) { return (imode == need || !rng.chance(0.35)) ? v : std::string("1*"); };
            s << "WCONINJE\n " << q(w.name) << " " << q(w.injPhase) << " '" << (rng.chance(0.85) ? "OPEN" : "SHUT") << "' '" << imode << "' " << opt("RATE", rate()) << " " << opt("RESV", rate()) << " " << opt("BHP", bhpHigh()) << " /\n/\n";
            add(st, "WCONINJE", s.str());
        }
        w.hasControl = true;
    }

    void firstStep(StepM& st) {
        // group tree first, then a handful of wells
        std::ostringstream g;
        g << "GRUPTREE\n";
        for (auto& gp : M->groups) g << " " << q(gp.first) << " " << q(gp.second) << " /\n";
        g << "/\n";
        add(st, "GRUPTREE", g.str());
        int nw = 2 + (int)rng.below(4);
        newWell(st, true, false);
        newWell(st, false, true);
        for (int w = 2; w < nw; ++w) newWell(st);
        if (opt.msw && rng.chance(0.4)) makeMsw(st);
    }

    void makeMsw(StepM& st) {
        std::vector<WellM*> v;
        for (auto& w : M->wells) if (!w.msw && w.producer && !w.ks.empty()) v.push_back(&w);
        if (v.empty()) return;
        WellM& w = *v[rng.below(v.size())];
        std::ostringstream s;
        double top = 1990;
        // main stem: one segment per connection.  In 40 % of the wells with >= 2 stem segments a two-segment lateral (branch 2, no
        // connections) leaves the stem and takes the segment numbers in the MIDDLE of the stem's numbering (stem 2,3 - lateral 4,5 -
        // stem 6,7): legal, numbers still increase away from the well head on every branch, but the order in which the library
        // stores the segments (branch-contiguous) then differs from the numerical order.
        const size_t m = w.ks.size();
        const bool lateral = m >= 2 && rng.chance(0.4);
        const size_t split = lateral ? 1 + rng.below(m - 1) : m;      // stem positions numbered before the lateral
        w.segs.clear();
        std::vector<int> stemNum(m);
        for (size_t c = 0; c < m; ++c) stemNum[c] = 2 + (int)c + (c >= split ? 2 : 0);
        for (size_t c = 0; c < m; ++c) {
            if (lateral && c == split) {
                const size_t from = rng.below(split);                  // stem position the lateral leaves from
                const double l0 = top + 10.0 * (from + 1), d0 = 2000 + 10.0 * w.ks[from] - 5;
                w.segs.push_back({2 + (int)split, 2, stemNum[from], l0 + 10, d0 + 1});
                w.segs.push_back({3 + (int)split, 2, 2 + (int)split, l0 + 20, d0 + 2});
            }
            w.segs.push_back({stemNum[c], 1, c == 0 ? 1 : stemNum[c - 1], top + 10.0 * (c + 1), 2000 + 10.0 * w.ks[c] - 5});
        }
        s << "WELSEGS\n " << q(w.name) << " " << fmtd(top) << " " << fmtd(top) << " 1.0e-5 'ABS' 'HFA' 'HO' /\n";
        for (auto& g : w.segs)
            s << " " << g.num << " " << g.num << " " << g.branch << " " << g.outlet << " " << fmtd(g.length) << " " << fmtd(g.depth) << " 0.2 0.0001 /\n";
        s << "/\n";
        add(st, "WELSEGS", s.str());
        std::ostringstream c;
        c << "COMPSEGS\n " << q(w.name) << " /\n";
        for (size_t k = 0; k < w.ks.size(); ++k)
            c << " " << w.i << " " << w.j << " " << w.ks[k] << " 1 " << fmtd(10.0 * k) << " " << fmtd(10.0 * (k + 1)) << " /\n";
        c << "/\n";
        add(st, "COMPSEGS", c.str());
        w.msw = true;
    }

    // ------------------------------------------------------------------------------------------------
    // keywords that are valid inside an ACTIONX body (structured)
    // ------------------------------------------------------------------------------------------------
    bool actionBodyKeyword(BodyKw& b) {
        WellM* w = anyWell();
        if (!w) return false;
        bool placeholder = rng.chance(0.4);
        auto wn = [&](const WellM* x) { return placeholder ? std::string("'?'") : q(x->name); };
        b.perWell = placeholder;
        switch (rng.below(opt.actionWpimult ? 18 : 15)) {
        // the well-wide form is only noted by its handler and applied when the action has been handled; the form naming a connection at once
        case 15: case 16: b.name = "WPIMULT"; b.records = {wn(w) + " " + fmtd(0.5 * (1 + rng.below(5))) + " /"}; return true;
        case 17: { if (w->ks.empty()) return false; b.perWell = false; b.name = "WPIMULT"; b.records = {q(w->name) + " " + fmtd(0.5 * (1 + rng.below(5))) + " " + std::to_string(w->i) + " " + std::to_string(w->j) + " " + std::to_string(w->ks[rng.below(w->ks.size())]) + " /"}; return true; }
        case 0: b.name = "WELOPEN"; b.records = {wn(w) + " '" + (rng.chance(0.5) ? "SHUT" : "OPEN") + "' /"}; return true;
        case 1: { WellM* p = anyProducer(); if (!p) return false; if (placeholder) { b.perWell = false; } b.name = "WCONPROD"; b.records = {q(p->name) + " 'OPEN' 'ORAT' " + rate() + " 4* " + bhpLow() + " /"}; return true; }
        case 2: { WellM* p = anyProducer(); if (!p) return false; b.perWell = false; b.name = "WELTARG"; static const char* t[] = {"ORAT", "WRAT", "GRAT", "LRAT", "BHP"}; std::string m = t[rng.below(5)]; b.records = {q(p->name) + " '" + m + "' " + (m == "BHP" ? bhpLow() : rate()) + " /"}; return true; }
        case 3: { WellM* p = anyProducer(); if (!p) return false; b.perWell = false; b.name = "WTMULT"; b.records = {q(p->name) + " 'ORAT' " + fmtd(0.5 * (1 + rng.below(4))) + " /"}; return true; }
        case 4: b.name = "WEFAC"; b.records = {wn(w) + " " + frac() + " /"}; return true;
        case 5: b.perWell = false; b.name = "GCONPROD"; b.records = {q(anyGroup()) + " 'ORAT' " + rate() + " 3* 'RATE' /"}; return true;
        case 6: { WellM* i = anyInjector(); if (!i) return false; b.perWell = false; b.name = "WCONINJE"; b.records = {q(i->name) + " " + q(i->injPhase) + " 'OPEN' 'RATE' " + rate() + " 1* " + bhpHigh() + " /"}; return true; }
        case 7: b.perWell = false; b.name = "NEXTSTEP"; b.records = {fmtd(1 + rng.below(5)) + " /"}; b.closing = false; return true;
        case 8: { b.perWell = false; b.name = "WELSPECS"; std::string nn = "A" + std::to_string(curStep) + "X" + std::to_string(rng.below(1000)); b.records = {q(nn) + " " + q(wellGroup()) + " 1 1 1* 'OIL' /"}; return true; }
        case 9: { b.perWell = false; b.name = "GRUPTREE"; auto nodes = nodeGroups(); std::string parent = nodes.empty() || rng.chance(0.5) ? "FIELD" : nodes[rng.below(nodes.size())]; b.records = {q(wellGroup()) + " " + q(parent) + " /"}; return true; }
        case 10: { b.perWell = false; b.name = "WLIST"; b.records = {"'*AL" + std::to_string(rng.below(3)) + "' 'NEW' " + q(w->name) + " /"}; return true; }
        // order-sensitive uses of the matched set: the list / the group members come out in the order the wells are visited
        case 12: { b.perWell = true; b.listInPlace = true; b.name = "WLIST"; b.records = {"'*QL" + std::to_string(rng.below(2)) + "' '" + (rng.chance(0.6) ? "NEW" : "ADD") + "' '?' /"}; if (b.records[0].find("ADD") != std::string::npos) { b.records.insert(b.records.begin(), "'" + b.records[0].substr(1, 4) + "' 'NEW' " + q(w->name) + " /"); } return true; }
        case 13: { b.perWell = true; b.name = "WELSPECS"; b.records = {"'?' " + q(wellGroup()) + " 1 1 1* 'OIL' /"}; return true; }
        case 14: { b.perWell = true; b.name = "WTEST"; b.records = {"'?' " + fmtd(1 + rng.below(20)) + " 'P' /"}; return true; }
        case 11: { b.perWell = false; b.name = "WTEST"; b.records = {q(w->name) + " " + fmtd(1 + rng.below(20)) + " 'P' /"}; return true; }
        }
        return false;
    }

    // ------------------------------------------------------------------------------------------------
    void randomKeyword(StepM& st) {
        int pick = (int)rng.below(72);
        WellM* w = anyWell();
        std::ostringstream s;
        switch (pick) {
        case 0: newWell(st); return;
        case 1: { WellM* p = anyProducer(); if (p) control(st, *p); return; }
        case 2: { WellM* i = anyInjector(); if (i) control(st, *i); return; }
        case 3: { if (!w) return; s << "WELOPEN\n " << q(wellOrPattern()) << " '" << (rng.chance(0.5) ? "SHUT" : (rng.chance(0.7) ? "OPEN" : "STOP")) << "' /\n/\n"; add(st, "WELOPEN", s.str()); return; }
        case 4: { if (!w || w->ks.empty()) return; int k = w->ks[rng.below(w->ks.size())]; s << "WELOPEN\n " << q(w->name) << " '" << (rng.chance(0.5) ? "SHUT" : "OPEN") << "' " << (rng.chance(0.5) ? "0 0 " + std::to_string(k) : std::to_string(w->i) + " " + std::to_string(w->j) + " " + std::to_string(k)) << " 2* /\n/\n"; add(st, "WELOPEN", s.str()); return; }
        case 5: { WellM* p = anyProducer(); if (!p) return; static const char* t[] = {"ORAT", "WRAT", "GRAT", "LRAT", "RESV", "BHP", "GUID"}; std::string m = t[rng.below(7)]; s << "WELTARG\n " << q(p->name) << " '" << m << "' " << (m == "BHP" ? bhpLow() : rate()) << " /\n/\n"; add(st, "WELTARG", s.str()); return; }
        case 6: { if (!w) return; s << "WEFAC\n " << q(wellOrPattern()) << " " << frac() << " /\n/\n"; add(st, "WEFAC", s.str()); return; }
        case 7: { s << "GEFAC\n " << q(anyGroup()) << " " << frac() << " /\n/\n"; add(st, "GEFAC", s.str()); return; }
        case 8: { // new well group, or move a well group below another node / FIELD
            auto nodes = nodeGroups();
            std::string parent = nodes.empty() || rng.chance(0.5) ? "FIELD" : nodes[rng.below(nodes.size())];
            if (rng.chance(0.4)) { std::string g = "G" + std::to_string(nWellGroups() + 1); M->groups.push_back({g, parent}); s << "GRUPTREE\n " << q(g) << " " << q(parent) << " /\n/\n"; }
            else { std::string g = wellGroup(); for (auto& gp : M->groups) if (gp.first == g) gp.second = parent; s << "GRUPTREE\n " << q(g) << " " << q(parent) << " /\n/\n"; }
            add(st, "GRUPTREE", s.str()); return; }
        case 9: { static const char* m[] = {"NONE", "ORAT", "WRAT", "GRAT", "LRAT", "FLD"}; std::string mode = m[rng.below(6)]; auto opt = [&](const char* need, const std::string& v) { return (mode == need || ((mode == "NONE" || mode == "FLD") && std::string(need) == "ORAT") || !rng.chance(0.35)) ? v : std::string("1*"); }; s << "GCONPROD\n " << q(anyGroup(mode != "FLD")) << " '" << mode << "' " << opt("ORAT", rate()) << " " << opt("WRAT", rate()) << " " << opt("GRAT", rate()) << " " << opt("LRAT", rate()) << " '" << (rng.chance(0.5) ? "RATE" : "NONE") << "' " << (rng.chance(0.5) ? "'YES'" : "'NO'") << " /\n/\n"; add(st, "GCONPROD", s.str()); return; }
        case 10: { static const char* m[] = {"NONE", "RATE", "RESV", "REIN", "VREP"}; const int md = (int)rng.below(5);
            // items 4-7 (surface rate, reservoir rate, re-injection fraction, voidage fraction): the one the mode needs is given, each of
            // the others is left out in 40 % of the records (which limits are active is part of the group's control set)
            auto it = [&](int need, const std::string& v) { return (md == need || (md == 0 && need == 1) || !rng.chance(0.4)) ? v : std::string("1*"); };   // (mode NONE keeps its surface rate limit: a record without any content is not generated)
            s << "GCONINJE\n " << q(anyGroup(true)) << " '" << (rng.chance(0.6) ? "WATER" : "GAS") << "' '" << m[md] << "' " << it(1, rate()) << " " << it(2, rate()) << " " << it(3, frac()) << " " << it(4, frac()) << " /\n/\n"; add(st, "GCONINJE", s.str()); return; }
        case 11: { if (!w) return; s << "WTEST\n " << q(w->name) << " " << fmtd(1 + rng.below(30)) << " '" << (rng.chance(0.5) ? "P" : "PE") << "' " << (rng.chance(0.5) ? "1*" : "3") << " /\n/\n"; add(st, "WTEST", s.str()); return; }
        case 12: { WellM* p = anyProducer(); if (!p) return; s << "WECON\n " << q(p->name) << " " << fmtd(rng.below(20)) << " 1* " << frac() << " 2* '" << (rng.chance(0.5) ? "CON" : "WELL") << "' /\n/\n"; add(st, "WECON", s.str()); return; }
        case 13: { if (!w) return; std::string l = "*L" + std::to_string(1 + rng.below(3)); bool exists = std::find(M->wlists.begin(), M->wlists.end(), l) != M->wlists.end(); std::string op = exists ? (rng.chance(0.5) ? "ADD" : (rng.chance(0.5) ? "DEL" : "MOV")) : "NEW"; if (!exists) M->wlists.push_back(l); s << "WLIST\n " << q(l) << " '" << op << "' " << q(w->name); WellM* w2 = anyWell(); if (w2 != w && rng.chance(0.5)) s << " " << q(w2->name); s << " /\n/\n"; add(st, "WLIST", s.str()); return; }
        case 14: { if (!opt.wpimult || !w || w->ks.empty()) return; if (rng.chance(0.5)) s << "WPIMULT\n " << q(w->name) << " " << fmtd(0.5 * (1 + rng.below(5))) << " /\n/\n"; else s << "WPIMULT\n " << q(w->name) << " " << fmtd(0.5 * (1 + rng.below(5))) << " " << w->i << " " << w->j << " " << w->ks[rng.below(w->ks.size())] << " /\n/\n"; add(st, "WPIMULT", s.str()); return; }
        case 15: { WellM* p = anyProducer(); if (!p) return; s << "WTMULT\n " << q(p->name) << " '" << (rng.chance(0.5) ? "ORAT" : "LRAT") << "' " << fmtd(0.5 * (1 + rng.below(4))) << " /\n/\n"; add(st, "WTMULT", s.str()); return; }
        case 16: { s << "TUNING\n " << fmtd(1 + rng.below(3)) << " " << fmtd(10 + rng.below(30)) << " /\n /\n " << (rng.chance(0.5) ? "12 1 50" : "") << " /\n"; add(st, "TUNING", s.str()); return; }
        case 17: { s << "NEXTSTEP\n " << fmtd(1 + rng.below(5)) << " " << (rng.chance(0.5) ? "'YES'" : "'NO'") << " /\n"; add(st, "NEXTSTEP", s.str()); return; }
        case 18: { // mnemonic form, or the old form with integer controls (item n = control n)
            if (rng.chance(0.7)) s << "RPTRST\n BASIC=" << 1 + rng.below(3) << (rng.chance(0.5) ? " FREQ=2" : "") << " /\n";
            else s << "RPTRST\n " << 1 + rng.below(3) << " " << 2 + rng.below(6) << "*0 " << rng.below(2) << " " << rng.below(2) << " /\n";
            add(st, "RPTRST", s.str()); return; }
        case 19: { if (rng.chance(0.7)) s << "RPTSCHED\n " << (rng.chance(0.5) ? "FIP WELLS" : "RESTART=2 FIP=1") << " /\n";
                   else s << "RPTSCHED\n " << rng.below(2) << " " << rng.below(2) << " " << 1 + rng.below(5) << "*0 " << rng.below(3) << " /\n";
                   add(st, "RPTSCHED", s.str()); return; }
        case 20: { if (!opt.udq) return; std::string n = std::string(rng.chance(0.5) ? "WU" : "FU") + "A" + std::to_string(1 + rng.below(3)); M->udqAssigned.push_back(n); s << "UDQ\n ASSIGN " << n << " " << fmtd(rng.below(100)) << " /\n" << (rng.chance(0.3) ? " UNITS " + n + " SM3/DAY /\n" : "") << "/\n"; add(st, "UDQ", s.str()); return; }
        case 21: { if (!opt.udq) return; bool well = rng.chance(0.5); std::string n = std::string(well ? "WU" : "FU") + "D" + std::to_string(1 + rng.below(3)); M->udqDefined.push_back(n); static const char* we[] = {"WOPR * 2", "WWPR + WOPR", "WOPR / ( WWPR + 1 )", "MAX( WOPR , 10 )", "-WOPR", "-( WOPR - WWPR ) * 2", "WOPR - -WWPR", "10 - ABS( -WWPR )"}; static const char* fe[] = {"FOPR * 2", "SUM( WOPR )", "FOPR + FWPR", "MAX( WOPR )", "-FOPR", "-( FOPR - FWPR ) * 2", "3 - -FOPR", "-SUM( WOPR )"}; s << "UDQ\n DEFINE " << n << " " << (well ? we[rng.below(8)] : fe[rng.below(8)]) << " /\n" << (rng.chance(0.3) ? " UPDATE " + n + (rng.chance(0.5) ? " NEXT /\n" : " OFF /\n") : "") << "/\n"; add(st, "UDQ", s.str()); return; }
        case 22: { if (!opt.actions || !w) return; ActionM a; a.name = "ACT" + std::to_string(++actionCounter); a.maxRun = (int)rng.below(4); a.minWait = rng.chance(0.5) ? 0 : (double)rng.below(20); a.definedAtStep = curStep;
                   static const char* conds[] = {" WOPR 'W*' > 1", " FOPR > 100", " FOPR > 100 AND\n WWCT 'W*' < 0.9", " GOPR 'G1' > 0 OR\n FWPR > 5", " DAY > 5"}; a.condition = std::string(conds[rng.below(5)]) + " /\n";
                   a.body = actionBody(1 + (int)rng.below(3)); if (a.body.empty()) return; M->actions.push_back(a); add(st, "ACTIONX", a.render()); return; }
        case 23: { if (!opt.msw) return; makeMsw(st); return; }
        case 24: { if (M->hasGuiderat && rng.chance(0.5)) return; M->hasGuiderat = true; s << "GUIDERAT\n " << fmtd(rng.below(10)) << " 'OIL' 1 0.5 1 1 0 0 'YES' 0.5 /\n"; add(st, "GUIDERAT", s.str()); return; }
        case 25: { WellM* p = anyProducer(); if (!p) return; s << "WGRUPCON\n " << q(p->name) << " '" << (rng.chance(0.5) ? "YES" : "NO") << "' " << fmtd(1 + rng.below(5)) << " '" << (rng.chance(0.5) ? "OIL" : "LIQ") << "' /\n/\n"; add(st, "WGRUPCON", s.str()); return; }
        case 26: { if (!M->hasLiftOpt) { M->hasLiftOpt = true; add(st, "LIFTOPT", "LIFTOPT\n 12500 5E-3 37. 'YES' /\n"); } WellM* p = anyProducer(); if (!p) return; s << "WLIFTOPT\n " << q(p->name) << " '" << (rng.chance(0.5) ? "YES" : "NO") << "' " << fmtd(1000 * (1 + rng.below(100))) << " 1.01 -1.0 /\n/\n"; add(st, "WLIFTOPT", s.str()); return; }
        case 27: { if (!M->hasLiftOpt) return; s << "GLIFTOPT\n " << q(anyGroup()) << " " << fmtd(1000 * (1 + rng.below(100))) << " 1* /\n/\n"; add(st, "GLIFTOPT", s.str()); return; }
        case 28: { // VFPPROD table (small)
            int id = 1 + (int)rng.below(3); M->hasVfp = true; if (std::find(M->vfpIds.begin(), M->vfpIds.end(), id) == M->vfpIds.end()) M->vfpIds.push_back(id);
            s << "VFPPROD\n " << id << " 2000 'LIQ' 'WCT' 'GOR' 'THP' " << (opt.vfpDefaultAlq && rng.chance(0.4) ? "1*" : "'GRAT'") << " '" << (M->units == "LAB" ? "LAB" : M->units) << "' 'BHP' /\n 100 500 1000 /\n 10 20 /\n 0 0.5 /\n 50 /\n 0 /\n";
            for (int t = 1; t <= 2; ++t) for (int wf = 1; wf <= 2; ++wf) s << " " << t << " " << wf << " 1 1 " << fmtd(100 + 10 * t + rng.below(5)) << " " << fmtd(120 + 10 * t) << " " << fmtd(150 + 10 * t) << " /\n";
            add(st, "VFPPROD", s.str()); return; }
        case 29: { if (!M->hasNetwork) return; s << "BRANPROP\n"; for (auto& g : M->groups) if (g.second != "FIELD" || true) s << " " << q(g.first) << " " << q(g.second == "FIELD" ? "FIELD" : g.second) << " 9999 /\n"; s << "/\nNODEPROP\n 'FIELD' " << fmtd(20 + rng.below(10)) << " 'NO' 'NO' /\n"; for (auto& g : M->groups) s << " " << q(g.first) << " 1* 'NO' 'NO' /\n"; s << "/\n"; add(st, "BRANPROP", s.str()); return; }
        case 30: { if (!M->hasNetwork) return; s << "NETBALAN\n " << fmtd(rng.below(5)) << " 0.03 13 0.1 14 /\n"; add(st, "NETBALAN", s.str()); return; }
        case 31: { s << "DRSDT\n " << fmtd(0.001 * (1 + rng.below(10))) << " /\n"; add(st, "DRSDT", s.str()); return; }
        case 32: { if (!opt.geoModifiers) return; int n = M->nx * M->ny * M->nz; static const char* kw[] = {"MULTX", "MULTY", "MULTZ", "MULTX-", "MULTZ-"}; std::string k = kw[rng.below(5)]; s << k << "\n " << n << "*" << fmtd(0.5 * (1 + rng.below(4))) << " /\n"; add(st, k, s.str()); return; }
        case 33: { if (!opt.geoModifiers) return; int i2 = 1 + (int)rng.below(M->nx); s << "BOX\n 1 " << i2 << " 1 1 1 1 /\nMULTX\n " << i2 << "*" << fmtd(0.25 * (1 + rng.below(8))) << " /\nENDBOX\n"; add(st, "BOX", s.str()); return; }
        case 34: { if (!w) return; s << "WRFTPLT\n " << q(w->name) << " '" << (rng.chance(0.5) ? "YES" : "REPT") << "' '" << (rng.chance(0.5) ? "YES" : "NO") << "' /\n/\n"; add(st, "WRFTPLT", s.str()); return; }
        case 35: { s << "WPAVE\n " << frac() << " " << frac() << " '" << (rng.chance(0.5) ? "WELL" : "RES") << "' '" << (rng.chance(0.5) ? "OPEN" : "ALL") << "' /\n"; add(st, "WPAVE", s.str()); return; }
        case 36: { if (!w) return; s << "WWPAVE\n " << q(w->name) << " " << frac() << " " << frac() << " 'WELL' 'ALL' /\n/\n"; add(st, "WWPAVE", s.str()); return; }
        case 37: { if (!w || w->ks.empty()) return; s << "COMPLUMP\n " << q(w->name) << " " << w->i << " " << w->j << " " << w->ks.front() << " " << w->ks.back() << " " << 1 + rng.below(3) << " /\n/\n"; add(st, "COMPLUMP", s.str()); return; }
        case 38: { if (!w) return; s << "COMPORD\n " << q(w->name) << " '" << (rng.chance(0.5) ? "TRACK" : "INPUT") << "' /\n/\n"; add(st, "COMPORD", s.str()); return; }
        case 39: { s << "WHISTCTL\n '" << (rng.chance(0.5) ? "ORAT" : (rng.chance(0.5) ? "RESV" : "NONE")) << "' /\n"; add(st, "WHISTCTL", s.str()); return; }
        case 40: { if (!w || w->ks.empty()) return; // COMPDAT re-entry of an existing connection
            int k = w->ks[rng.below(w->ks.size())]; s << "COMPDAT\n " << q(w->name) << " " << w->i << " " << w->j << " " << k << " " << k << " '" << (rng.chance(0.7) ? "OPEN" : "SHUT") << "' 1* " << (rng.chance(0.5) ? "1*" : fmtd(rng.uniform(1, 40))) << " 0.25 /\n/\n"; add(st, "COMPDAT", s.str()); return; }
        case 41: { s << "GCONSUMP\n " << q(anyGroup()) << " " << rate() << " " << (rng.chance(0.5) ? "1*" : rate()) << " /\n/\n"; add(st, "GCONSUMP", s.str()); return; }
        case 42: { s << "GECON\n " << q(anyGroup()) << " " << rate() << " 1* " << frac() << " 2* '" << (rng.chance(0.5) ? "NONE" : "WELL") << "' /\n/\n"; add(st, "GECON", s.str()); return; }
        case 44: { s << "GCONSALE\n " << q(anyGroup()) << " " << rate() << " " << (rng.chance(0.5) ? "1*" : rate()) << " " << (rng.chance(0.5) ? "1*" : fmtd(rng.below(50))) << " '" << (rng.chance(0.5) ? "NONE" : (rng.chance(0.5) ? "RATE" : "WELL")) << "' /\n/\n"; add(st, "GCONSALE", s.str()); return; }
        case 45: { s << "GPMAINT\n " << q(anyGroup()) << " '" << (rng.chance(0.5) ? "WINJ" : (rng.chance(0.5) ? "GINJ" : "NONE")) << "' 1 1* " << fmtd(200 + rng.below(100)) << " " << fmtd(1 + rng.below(10)) << " " << fmtd(1 + rng.below(30)) << " /\n/\n"; add(st, "GPMAINT", s.str()); return; }
        case 46: { if (!w) return; s << "WVFPEXP\n " << q(w->name) << " '" << (rng.chance(0.5) ? "EXP" : "IMP") << "' '" << (rng.chance(0.5) ? "YES" : "NO") << "' '" << (rng.chance(0.5) ? "YES1" : "NO") << "' /\n/\n"; add(st, "WVFPEXP", s.str()); return; }
        case 47: { if (!w) return; s << "WVFPDP\n " << q(w->name) << " " << fmtd(rng.uniform(-5, 5)) << " " << fmtd(0.5 + 0.1 * rng.below(10)) << " /\n/\n"; add(st, "WVFPDP", s.str()); return; }
        case 48: { if (!w) return; s << "WDFAC\n " << q(w->name) << " " << fmtd(1e-5 * (1 + rng.below(9))) << " /\n/\n"; add(st, "WDFAC", s.str()); return; }
        case 49: { if (!w || w->ks.empty()) return; s << "CSKIN\n " << q(w->name) << " " << w->i << " " << w->j << " " << w->ks.front() << " " << w->ks.back() << " " << fmtd(rng.uniform(-1, 6)) << " /\n/\n"; add(st, "CSKIN", s.str()); return; }
        case 50: { std::vector<WellM*> v; for (auto& x : M->wells) if (x.msw) v.push_back(&x); if (v.empty()) return; WellM* m = v[rng.below(v.size())]; s << "WSEGVALV\n " << q(m->name) << " " << 2 + rng.below(m->ks.size()) << " " << fmtd(0.5 + 0.1 * rng.below(5)) << " " << fmtd(0.001 * (1 + rng.below(9))) << " /\n/\n"; add(st, "WSEGVALV", s.str()); return; }
        case 51: { if (!w) return; s << "WRFT\n " << q(w->name) << " /\n/\n"; add(st, "WRFT", s.str()); return; }
        case 52: { WellM* p = anyProducer(); if (!p) return; s << "WELPI\n " << q(p->name) << " " << fmtd(1 + rng.below(50)) << " /\n/\n"; add(st, "WELPI", s.str()); return; }
        case 53: { if (!w) return; s << "WDFACCOR\n " << q(w->name) << " " << fmtd(1e-6 * (1 + rng.below(9))) << " " << fmtd(-1.0 - 0.1 * rng.below(5)) << " " << fmtd(0.1 * rng.below(5)) << " /\n/\n"; add(st, "WDFACCOR", s.str()); return; }
        case 54: { WellM* i = anyInjector(); if (!i) return; s << "WINJTEMP\n " << q(i->name) << " 1* " << fmtd(20 + rng.below(60)) << " /\n/\n"; add(st, "WINJTEMP", s.str()); return; }
        case 55: { s << "SAVE\n"; add(st, "SAVE", s.str()); return; }
        case 56: { s << "NUPCOL\n " << 1 + rng.below(12) << " /\n"; add(st, "NUPCOL", s.str()); return; }
        case 57: { s << "MESSAGES\n " << (rng.chance(0.5) ? "3*" : "2* 100") << " " << 10 + rng.below(100) << " /\n"; add(st, "MESSAGES", s.str()); return; }
        case 58: { s << "SUMTHIN\n " << fmtd(1 + rng.below(30)) << " /\n"; add(st, "SUMTHIN", s.str()); return; }
        case 59: { s << (rng.chance(0.5) ? "RPTONLY\n" : "RPTONLYO\n"); add(st, "RPTONLY", s.str()); return; }
        case 60: { s << "VAPPARS\n " << fmtd(rng.below(5)) << " " << fmtd(0.1 * rng.below(5)) << " /\n"; add(st, "VAPPARS", s.str()); return; }
        case 61: { s << "DRVDT\n " << fmtd(0.0001 * (1 + rng.below(10))) << " /\n"; add(st, "DRVDT", s.str()); return; }
        case 62: { s << "FBHPDEF\n " << fmtd(1 + rng.below(5)) << " " << fmtd(500 + rng.below(500)) << " /\n"; add(st, "FBHPDEF", s.str()); return; }
        case 63: { if (!w) return; s << "WPAVEDEP\n " << q(w->name) << " " << fmtd(2000 + rng.below(30)) << " /\n/\n"; add(st, "WPAVEDEP", s.str()); return; }
        case 64: { int id = 1 + (int)rng.below(3); s << "VFPINJ\n " << id << " 2000 'WAT' 'THP' '" << M->units << "' 'BHP' /\n 100 500 1000 /\n 10 20 /\n 1 " << fmtd(200 + rng.below(10)) << " 220 250 /\n 2 " << fmtd(210 + rng.below(10)) << " 230 260 /\n"; add(st, "VFPINJ", s.str()); return; }
        case 65: { s << "WSEGITER\n " << 20 + rng.below(30) << " " << 2 + rng.below(5) << " 0.3 2.0 /\n"; add(st, "WSEGITER", s.str()); return; }
        case 66: { std::vector<WellM*> v; for (auto& x : M->wells) if (x.msw) v.push_back(&x); if (v.empty()) return; WellM* m = v[rng.below(v.size())]; int sg = 2 + (int)rng.below(m->ks.size()); s << "WSEGSICD\n " << q(m->name) << " " << sg << " " << sg << " " << fmtd(0.001 * (1 + rng.below(9))) << " " << fmtd(5 + rng.below(20)) << " /\n/\n"; add(st, "WSEGSICD", s.str()); return; }
        case 67: { WellM* i = anyInjector(); if (!i) return; s << "WTEMP\n " << q(i->name) << " " << fmtd(20 + rng.below(60)) << " /\n/\n"; add(st, "WTEMP", s.str()); return; }
        case 68: { s << "DRSDTR\n " << fmtd(0.001 * (1 + rng.below(10))) << " '" << (rng.chance(0.5) ? "ALL" : "FREE") << "' /\n"; add(st, "DRSDTR", s.str()); return; }
        case 69: { if (!w) return; s << "WECON\n " << q(wellOrPattern()) << " " << fmtd(rng.below(10)) << " " << fmtd(rng.below(1000)) << " " << frac() << " " << fmtd(100 + rng.below(900)) << " 1* '" << (rng.chance(0.5) ? "CON" : "+CON") << "' '" << (rng.chance(0.5) ? "YES" : "NO") << "' /\n/\n"; add(st, "WECON", s.str()); return; }
        case 71: { if (!M->hasBccon) return;
            s << "BCPROP\n " << 1 + rng.below(2) << " '" << (rng.chance(0.5) ? "RATE" : "FREE") << "' '" << (rng.chance(0.5) ? "WATER" : "GAS") << "' " << fmtd(rng.below(200)) << " /\n/\n";
            add(st, "BCPROP", s.str()); return; }
        case 70: { // WELSEGS entered again for a well that already has segments (same topology, one segment re-dimensioned)
            std::vector<WellM*> v; for (auto& x : M->wells) if (x.msw) v.push_back(&x); if (v.empty()) return;
            WellM& m = *v[rng.below(v.size())];
            const double top = 1990; const size_t changed = rng.below(m.segs.size());
            s << "WELSEGS\n " << q(m.name) << " " << fmtd(top) << " " << fmtd(top) << " 1.0e-5 'ABS' 'HFA' 'HO' /\n";
            for (size_t c = 0; c < m.segs.size(); ++c) { const auto& g = m.segs[c];
                s << " " << g.num << " " << g.num << " " << g.branch << " " << g.outlet << " " << fmtd(g.length) << " " << fmtd(g.depth) << " " << (c == changed ? fmtd(0.1 + 0.01 * rng.below(9)) : std::string("0.2")) << " 0.0001 /\n"; }
            s << "/\n";
            add(st, "WELSEGS", s.str()); return; }
        case 43: { WellM* i = anyInjector(); if (!i) return; s << "WINJMULT\n " << q(i->name) << " " << fmtd(100 + rng.below(200)) << " " << fmtd(0.001 * (1 + rng.below(5))) << " '" << (rng.chance(0.5) ? "WREV" : "CIRR") << "' /\n/\n"; add(st, "WINJMULT", s.str()); return; }
        }
    }
};

} // namespace gdeck
