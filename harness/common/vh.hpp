// Shared plumbing for the verification harnesses (header-only, no dependency on opm-common).
//
// Process protocol (driver = /verif/vp/driver.py):
//   harness --seed S --shard i/n --cases N [--start K] [--tier quick|thorough] --out DIR [k=v ...]
// Case indices are global: shard i executes indices K, K+n, ... < N with (index % n == i).
// Every case draws its randomness from Rng(seed, index) only, so a case is replayed by
//   harness --seed S --shard 0/1 --start index --cases index+1
// stdout carries one JSON object per line:
//   {"type":"violation","key":...,"what":...,"case":index,"replay":path}
//   {"type":"summary", ...}          (last line; absence == the worker died)
// Before each case the index is written to DIR/journal_<shard> so the driver can tell which case
// killed a worker and restart after it.
#pragma once
#include <cstdint>
#include <cstdio>
#include <cstdlib>
#include <cstring>
#include <cmath>
#include <map>
#include <set>
#include <string>
#include <vector>
#include <sstream>
#include <fstream>
#include <iostream>
#include <functional>
#include <unistd.h>
#include <fcntl.h>
#include <sys/stat.h>

namespace vh {

inline uint64_t splitmix(uint64_t& x) {
    uint64_t z = (x += 0x9e3779b97f4a7c15ULL);
    z = (z ^ (z >> 30)) * 0xbf58476d1ce4e5b9ULL;
    z = (z ^ (z >> 27)) * 0x94d049bb133111ebULL;
    return z ^ (z >> 31);
}

struct Rng {
    uint64_t s[4];
    explicit Rng(uint64_t seed = 1, uint64_t stream = 0) { reseed(seed, stream); }
    void reseed(uint64_t seed, uint64_t stream) {
        uint64_t x = seed * 0x2545F4914F6CDD1DULL + stream * 0x9E3779B97F4A7C15ULL + 0x1234567;
        for (auto& v : s) v = splitmix(x);
    }
    static uint64_t rotl(uint64_t x, int k) { return (x << k) | (x >> (64 - k)); }
    uint64_t u64() {
        const uint64_t r = rotl(s[1] * 5, 7) * 9, t = s[1] << 17;
        s[2] ^= s[0]; s[3] ^= s[1]; s[1] ^= s[2]; s[0] ^= s[3]; s[2] ^= t; s[3] = rotl(s[3], 45);
        return r;
    }
    uint64_t operator()() { return u64(); }
    // uniform in [0, n)
    uint64_t below(uint64_t n) { return n ? u64() % n : 0; }
    // uniform integer in [a, b]
    long range(long a, long b) { return a + (long)below((uint64_t)(b - a + 1)); }
    double unit() { return (u64() >> 11) * (1.0 / 9007199254740992.0); }
    double uniform(double a, double b) { return a + (b - a) * unit(); }
    double loguniform(double a, double b) { return std::exp(uniform(std::log(a), std::log(b))); }
    bool chance(double p) { return unit() < p; }
    template <class V> const typename V::value_type& pick(const V& v) { return v[below(v.size())]; }
    template <class V> void shuffle(V& v) { for (size_t i = v.size(); i > 1; --i) std::swap(v[i - 1], v[below(i)]); }
};

inline uint64_t fnv(const void* p, size_t n, uint64_t h = 1469598103934665603ULL) {
    const unsigned char* c = (const unsigned char*)p;
    for (size_t i = 0; i < n; ++i) { h ^= c[i]; h *= 1099511628211ULL; }
    return h;
}
inline uint64_t fnv(const std::string& s, uint64_t h = 1469598103934665603ULL) { return fnv(s.data(), s.size(), h); }

inline std::string jstr(const std::string& s) {
    std::string o = "\"";
    for (unsigned char c : s) {
        switch (c) {
        case '"': o += "\\\""; break;
        case '\\': o += "\\\\"; break;
        case '\n': o += "\\n"; break;
        case '\r': o += "\\r"; break;
        case '\t': o += "\\t"; break;
        default:
            if (c < 0x20 || c >= 0x7f) { char b[8]; snprintf(b, sizeof b, "\\u%04x", c); o += b; }
            else o += (char)c;
        }
    }
    return o + "\"";
}

inline uint64_t bits(double d) { uint64_t b; std::memcpy(&b, &d, 8); return b; }
inline uint32_t bits(float d) { uint32_t b; std::memcpy(&b, &d, 4); return b; }

// relative difference with absolute floor
inline double reldiff(double a, double b, double floor_ = 0.0) {
    if (a == b) return 0.0;
    if (std::isnan(a) || std::isnan(b)) return (std::isnan(a) && std::isnan(b)) ? 0.0 : INFINITY;
    if (std::isinf(a) || std::isinf(b)) return INFINITY;    // (inf - x) / inf would be NaN, and NaN > tol is false
    double d = std::fabs(a - b), m = std::max(std::fabs(a), std::fabs(b));
    if (m < floor_) m = floor_;
    return m > 0 ? d / m : d;
}

struct Args {
    uint64_t seed = 1;
    long shard = 0, nshard = 1;
    long cases = 100, start = 0;
    std::string tier = "quick", out = ".";
    std::map<std::string, std::string> kv;
    bool replaying = false;
    std::string get(const std::string& k, const std::string& d = "") const { auto i = kv.find(k); return i == kv.end() ? d : i->second; }
    long geti(const std::string& k, long d) const { auto i = kv.find(k); return i == kv.end() ? d : atol(i->second.c_str()); }
    double getd(const std::string& k, double d) const { auto i = kv.find(k); return i == kv.end() ? d : atof(i->second.c_str()); }
};

inline Args parse_args(int argc, char** argv) {
    Args a;
    if (const char* e = getenv("VERIF_SEED")) a.seed = strtoull(e, nullptr, 10);
    for (int i = 1; i < argc; ++i) {
        std::string s = argv[i];
        auto next = [&]() -> std::string { if (i + 1 >= argc) { fprintf(stderr, "missing value for %s\n", s.c_str()); exit(2); } return argv[++i]; };
        if (s == "--seed") a.seed = strtoull(next().c_str(), nullptr, 10);
        else if (s == "--shard") { std::string v = next(); sscanf(v.c_str(), "%ld/%ld", &a.shard, &a.nshard); }
        else if (s == "--cases") a.cases = atol(next().c_str());
        else if (s == "--start") a.start = atol(next().c_str());
        else if (s == "--tier") a.tier = next();
        else if (s == "--out") a.out = next();
        else if (s == "--replaying") a.replaying = true;
        else if (s.find('=') != std::string::npos) a.kv[s.substr(0, s.find('='))] = s.substr(s.find('=') + 1);
        else { fprintf(stderr, "unknown argument %s\n", s.c_str()); exit(2); }
    }
    if (a.nshard < 1) a.nshard = 1;
    mkdir(a.out.c_str(), 0755);
    return a;
}

class Reporter {
public:
    Reporter(const Args& a, const std::string& property) : args(a), prop(property) {
        std::string j = a.out + "/journal_" + std::to_string(a.shard);
        jfd = open(j.c_str(), O_CREAT | O_WRONLY | O_TRUNC, 0644);
    }

    // iterate over this shard's case indices
    template <class F> void run_cases(F&& f) {
        long first = args.start;
        while (first % args.nshard != args.shard) ++first;
        first_case = first;
        for (long idx = first; idx < args.cases; idx += args.nshard) {
            journal(idx);
            cur_case = idx;
            Rng rng(args.seed, (uint64_t)idx);
            f(idx, rng);
            ++evaluations;
            if (evaluations == next_checkpoint) { checkpoint(); next_checkpoint *= 2; }
        }
        journal(-1);
    }

    void journal(long idx) {
        if (jfd < 0) return;
        char b[32]; int n = snprintf(b, sizeof b, "%-20ld\n", idx);
        if (pwrite(jfd, b, n, 0) < 0) {}
    }
    // extra free-form context for the driver in case the process dies inside this case
    void journal_note(const std::string& text) {
        std::string p = args.out + "/journalnote_" + std::to_string(args.shard);
        std::ofstream o(p, std::ios::trunc | std::ios::binary); o << text;
    }

    // record that a case ran and whether it was non-trivial; `h` identifies the case content
    void case_done(uint64_t h, bool nontrivial) {
        if (nontrivial) hashes.insert(h);
    }
    void sample(const std::string& s, size_t max_samples = 3, size_t max_len = 1500) {
        if (samples.size() < max_samples) samples.push_back(s.size() > max_len ? s.substr(0, max_len) + "...[cut]" : s);
    }
    void cover(const std::string& cat, const std::string& item, long n = 1) { cov[cat][item] += n; }
    void count(const std::string& name, long n = 1) { counters[name] += n; }
    void maxof(const std::string& name, double v) { auto i = maxima.find(name); if (i == maxima.end() || v > i->second) maxima[name] = v; }

    // A violation.  `key` names the failing input class / site (matched against known_findings.json),
    // `what` is a one-line description, `witness` the complete failing case as text.
    void violation(const std::string& key, const std::string& what, const std::string& witness) {
        long& n = vcount[key];
        ++n; ++violations;
        if (n > 5) return;   // keep at most 5 witnesses per key per worker
        std::string path = args.out + "/viol_" + std::to_string(args.shard) + "_" + std::to_string(violations) + ".txt";
        {
            std::ofstream o(path, std::ios::binary);
            o << "property: " << prop << "\nkey: " << key << "\nwhat: " << what << "\nseed: " << args.seed
              << "\ncase: " << cur_case << "\ntier: " << args.tier << "\nargs:";
            for (auto& kv : args.kv) o << " " << kv.first << "=" << kv.second;
            o << "\n--- witness ---\n" << witness << "\n";
        }
        printf("{\"type\":\"violation\",\"key\":%s,\"what\":%s,\"case\":%ld,\"replay\":%s}\n",
               jstr(key).c_str(), jstr(what.size() > 600 ? what.substr(0, 600) + "..." : what).c_str(), cur_case, jstr(path).c_str());
        fflush(stdout);
    }

    // What was observed so far, for the driver to pick up if this process dies later (crash = C20's subject).
    // Written at evaluations 64, 128, 256, ... so that the total cost stays linear.
    void checkpoint() {
        std::string line = summary_json("_ckpt");
        std::string p = args.out + "/checkpoint_" + std::to_string(args.shard) + ".json";
        std::string tmp = p + ".tmp";
        { std::ofstream o(tmp, std::ios::binary | std::ios::trunc); o << line << "\n"; }
        rename(tmp.c_str(), p.c_str());
    }

    void finish() {
        printf("%s\n", summary_json("").c_str());
        fflush(stdout);
        std::string p = args.out + "/checkpoint_" + std::to_string(args.shard) + ".json";
        unlink(p.c_str());
    }

    std::string summary_json(const std::string& tag) {
        // hashes of non-trivial cases go to a side file; the driver unions them over shards
        std::string hp = args.out + "/hashes_" + std::to_string(args.shard) + tag + "_" + std::to_string(first_case) + ".bin";
        {
            std::ofstream o(hp, std::ios::binary);
            for (uint64_t h : hashes) o.write((const char*)&h, 8);
        }
        std::ostringstream o;
        o << "{\"type\":\"summary\",\"evaluations\":" << evaluations << ",\"nontrivial\":" << hashes.size()
          << ",\"violations\":" << violations << ",\"hashes\":" << jstr(hp) << ",\"samples\":[";
        for (size_t i = 0; i < samples.size(); ++i) o << (i ? "," : "") << jstr(samples[i]);
        o << "],\"counters\":{";
        bool first = true;
        for (auto& c : counters) { o << (first ? "" : ",") << jstr(c.first) << ":" << c.second; first = false; }
        o << "},\"maxima\":{";
        first = true;
        for (auto& c : maxima) { o << (first ? "" : ",") << jstr(c.first) << ":"; if (std::isfinite(c.second)) o << c.second; else o << "null"; first = false; }
        o << "},\"violation_counts\":{";
        first = true;
        for (auto& c : vcount) { o << (first ? "" : ",") << jstr(c.first) << ":" << c.second; first = false; }
        o << "},\"cover\":{";
        first = true;
        for (auto& c : cov) {
            o << (first ? "" : ",") << jstr(c.first) << ":{"; first = false;
            bool f2 = true;
            for (auto& i : c.second) { o << (f2 ? "" : ",") << jstr(i.first) << ":" << i.second; f2 = false; }
            o << "}";
        }
        o << "}}";
        return o.str();
    }

    const Args& args;
    std::string prop;
    long evaluations = 0, violations = 0, cur_case = -1, next_checkpoint = 64, first_case = 0;
    std::set<uint64_t> hashes;
    std::vector<std::string> samples;
    std::map<std::string, std::map<std::string, long>> cov;
    std::map<std::string, long> counters, vcount;
    std::map<std::string, double> maxima;
    int jfd = -1;
};

// scratch directory private to this worker (inside --out), removed by the driver with the run
inline std::string scratch_dir(const Args& a, const std::string& name = "scratch") {
    std::string d = a.out + "/" + name + "_" + std::to_string(a.shard);
    mkdir(d.c_str(), 0755);
    return d;
}

inline std::string read_file(const std::string& p) {
    std::ifstream f(p, std::ios::binary);
    std::ostringstream o; o << f.rdbuf(); return o.str();
}
inline void write_file(const std::string& p, const std::string& s) {
    std::ofstream f(p, std::ios::binary | std::ios::trunc); f.write(s.data(), (std::streamsize)s.size());
}

} // namespace vh
