// G-KW: reflective keyword-grammar generator + bit-exact Deck dump (used by C01, C19, C20, C02).
//
// The generator walks the ParserKeyword definitions of the tree under test (Parser::getAllDeckNames)
// and synthesises, for a keyword, a *structured* text: records made of tokens, with the knowledge of
// which token is a default, which belongs to a SINGLE item, which is a bare alphabetic word...
// The structure is rendered canonically (base text) or through layout rewrites (C01).
#pragma once
#include <opm/input/eclipse/Parser/Parser.hpp>
#include <opm/input/eclipse/Parser/ParserKeyword.hpp>
#include <opm/input/eclipse/Parser/ParserRecord.hpp>
#include <opm/input/eclipse/Parser/ParserItem.hpp>
#include <opm/input/eclipse/Parser/ParserEnums.hpp>
#include <opm/input/eclipse/Parser/ParseContext.hpp>
#include <opm/input/eclipse/Parser/ErrorGuard.hpp>
#include <opm/input/eclipse/Parser/InputErrorAction.hpp>
#include <opm/input/eclipse/Deck/Deck.hpp>
#include <opm/input/eclipse/Deck/DeckKeyword.hpp>
#include <opm/input/eclipse/Deck/DeckRecord.hpp>
#include <opm/input/eclipse/Deck/DeckItem.hpp>
#include <opm/input/eclipse/Deck/UDAValue.hpp>
#include <opm/input/eclipse/Utility/Typetools.hpp>
#include "vh.hpp"
#include <algorithm>
#include <climits>

namespace gkw {
using namespace Opm;
using vh::Rng;

// ---------------------------------------------------------------------------------------------
// bit-exact dump of a Deck: keyword sequence, record/item structure, values, default flags, SI data
// Access order is fixed (raw data first, then SI) because DeckItem converts lazily in place.
// ---------------------------------------------------------------------------------------------
inline void hex64(std::ostream& o, double d) { char b[20]; snprintf(b, sizeof b, "%016llx", (unsigned long long)vh::bits(d)); o << b; }

struct DumpOpts {
    bool si = true;            // include SI data of double / UDA items
    bool exact_doubles = true; // raw bit patterns; otherwise %.9g (C19: printed precision)
    bool locations = false;
};

inline std::string dumpItem(const DeckItem& it, const DumpOpts& opt) {
    std::ostringstream o;
    o << it.name() << ":" << int(it.getType()) << ":" << it.data_size() << "[";
    const size_t n = it.data_size();
    for (size_t i = 0; i < n; ++i) {
        const bool hv = it.hasValue(i);
        o << (it.defaultApplied(i) ? "D" : "V") << (hv ? "" : "!");
        if (hv) {
            switch (it.getType()) {
            case type_tag::integer: o << it.get<int>(i); break;
            case type_tag::fdouble: {
                double d = it.get<double>(i);
                if (opt.exact_doubles) hex64(o, d); else { char b[40]; snprintf(b, sizeof b, "%.9g", d); o << b; }
                break; }
            case type_tag::string: o << "'" << it.get<std::string>(i) << "'"; break;
            case type_tag::raw_string: o << "r'" << it.get<RawString>(i) << "'"; break;
            case type_tag::uda: {
                auto u = it.get<UDAValue>(i);
                if (u.is<double>()) { o << "u"; if (opt.exact_doubles) hex64(o, u.get<double>()); else { char b[40]; snprintf(b, sizeof b, "%.9g", u.get<double>()); o << b; } }
                else if (u.is<std::string>()) o << "u'" << u.get<std::string>() << "'";
                else o << "u-none";
                break; }
            default: o << "?";
            }
        }
        o << ",";
    }
    o << "]";
    if (opt.si && it.getType() == type_tag::fdouble) {
        bool all = true;
        for (size_t i = 0; i < n; ++i) all = all && it.hasValue(i);
        if (all && n > 0) {
            o << "SI[";
            try {
                const auto& si = it.getSIDoubleData();
                for (double v : si) { if (opt.exact_doubles) hex64(o, v); else { char b[40]; snprintf(b, sizeof b, "%.9g", v); o << b; } o << ","; }
            } catch (const std::exception& e) { o << "throws"; }
            o << "]";
        }
    }
    if (opt.si && it.getType() == type_tag::uda) {
        for (size_t i = 0; i < n; ++i) {
            if (!it.hasValue(i)) continue;
            auto u = it.get<UDAValue>(i);
            if (u.is<double>()) { o << "SI"; try { double v = u.getSI(); if (opt.exact_doubles) hex64(o, v); else { char b[40]; snprintf(b, sizeof b, "%.9g", v); o << b; } } catch (const std::exception&) { o << "throws"; } }
        }
    }
    return o.str();
}

inline std::string dumpKeyword(const DeckKeyword& kw, const DumpOpts& opt) {
    std::ostringstream o;
    o << kw.name() << "{";
    for (const auto& rec : kw) {
        o << "(";
        for (const auto& it : rec) o << dumpItem(it, opt) << ";";
        o << ")";
    }
    o << "}";
    if (opt.locations) o << "@" << kw.location().lineno;
    return o.str();
}

inline std::string dumpDeck(const Deck& d, const DumpOpts& opt = DumpOpts{}) {
    std::ostringstream o;
    for (const auto& kw : d) o << dumpKeyword(kw, opt) << "\n";
    return o.str();
}

// ---------------------------------------------------------------------------------------------
// structured keyword text
// ---------------------------------------------------------------------------------------------
struct Tok {
    std::string text;
    bool isDefault = false;   // "1*"
    bool single = true;       // belongs to a SINGLE-size item
    bool bareAlpha = false;   // unquoted and starts with a letter (must not start a continuation line)
    bool mergeable = true;    // may take part in an n*v rewrite (no blank inside, not raw)
    type_tag type = type_tag::integer;
};
struct Rec {
    std::vector<Tok> toks;
    bool freeText = false;    // raw-string record: token-level rewrites are not meaning preserving
};
struct Kw {
    std::string name, cls;
    std::vector<Rec> recs;
    std::vector<char> slashAfter;   // slashAfter[i] != 0: a lone "/" line follows record i (table / group end)
    bool finalSlash = false;        // lone "/" terminates the keyword
    bool rawKw = false;
    bool fixedNoMin = false;        // FIXED size without min_size: an empty record is still a record
    bool verbatim = false;          // TITLE / code: `text` is emitted as is
    std::string text;
};
struct DeckT { std::vector<Kw> kws; };

static const char* HOSTILE_STRINGS[] = {"'TBG-3.5\"'", "'a\"b'", "'\"'", "'A B'", "'W*'", "'A/B'", "'A--B'", "'x -- y / z'", "'*'", "'P1*'", "'2*X'", "'a b  c'", "'/'", "W*", "OP_1", "'OP-1'", "X", "PROD1", "'G 1'"};
static const char* PLAIN_STRINGS[] = {"S1", "W1", "OP", "'WELL'", "G1", "'FIELD'", "YES", "NO", "OPEN", "'SHUT'", "ORAT", "X"};
static const char* DOUBLES[] = {"1.5", "2.25e1", "0.5D0", "7", "-3.125", "1.0E-3", "1.5d+2", ".5", "5.", "1E+25", "1.0E-25", "-1.2345678901234567", "0", "0.0", "100", "1e3", "3.0D-2", "+4.5", "123456789.125", "0.1"};
static const char* UDAS[] = {"10.5", "2", "'WUOPR'", "WUX", "FUVAR", "'GUY1'", "1.0E3", "-4"};

struct GenOpts {
    double pDefault = 0.25;     // probability that a SINGLE item is defaulted in the base text
    double pHostile = 0.3;      // hostile strings / extreme numbers
    int maxAll = 6;             // tokens of an ALL-size item
    int maxRecs = 3;            // records of an open-ended keyword
    bool allowAllDefaultRecord = true;
    bool allowTrailingDefaultInArray = true;   // last element(s) of an ALL-size item defaulted
};

inline Tok genValue(const ParserItem& it, Rng& rng, const GenOpts& g) {
    Tok t;
    t.type = it.dataType();
    switch (it.dataType()) {
    case type_tag::integer:
        if (rng.chance(g.pHostile * 0.3)) { const char* e[] = {"2147483647", "-2147483648", "0", "-1", "+7"}; t.text = e[rng.below(5)]; }
        else t.text = std::to_string(1 + rng.below(9));
        break;
    case type_tag::fdouble:
        t.text = rng.chance(0.5) ? DOUBLES[rng.below(sizeof DOUBLES / sizeof *DOUBLES)] : std::to_string(0.5 + rng.below(1000) / 8.0);
        break;
    case type_tag::string:
        if (rng.chance(g.pHostile)) t.text = HOSTILE_STRINGS[rng.below(sizeof HOSTILE_STRINGS / sizeof *HOSTILE_STRINGS)];
        else t.text = PLAIN_STRINGS[rng.below(sizeof PLAIN_STRINGS / sizeof *PLAIN_STRINGS)];
        break;
    case type_tag::raw_string:
        t.text = "R" + std::to_string(rng.below(10));
        t.mergeable = false;
        break;
    case type_tag::uda:
        t.text = UDAS[rng.below(sizeof UDAS / sizeof *UDAS)];
        break;
    default: t.text = "1";
    }
    t.bareAlpha = !t.text.empty() && std::isalpha((unsigned char)t.text[0]);
    if (t.text.find(' ') != std::string::npos) t.mergeable = false;
    return t;
}

inline Rec genRecord(const ParserRecord& prec, Rng& rng, const GenOpts& g, bool rawKw) {
    Rec r;
    r.freeText = rawKw;
    bool afterAll = false;   // every token after an ALL-size item is swallowed by that item
    for (const auto& it : prec) {
        const size_t first_new = r.toks.size();
        struct Mark { Rec& r; size_t from; bool& afterAll; ~Mark() { if (afterAll) for (size_t q = from; q < r.toks.size(); ++q) r.toks[q].single = false; } } mark{r, first_new, afterAll};
        if (it.sizeType() == ParserItem::item_size::ALL) {
            afterAll = true;
            int n = 1 + (int)rng.below(g.maxAll);
            Tok v = genValue(it, rng, g);
            for (int i = 0; i < n; ++i) {
                Tok t = rng.chance(0.6) ? v : genValue(it, rng, g);
                if (!it.parseRaw() && rng.chance(0.08)) { t = Tok{}; t.text = "1*"; t.isDefault = true; t.type = it.dataType(); }
                t.single = false;
                r.toks.push_back(t);
            }
        } else {
            if (!it.parseRaw() && rng.chance(g.pDefault)) { Tok t; t.text = "1*"; t.isDefault = true; t.type = it.dataType(); r.toks.push_back(t); }
            else r.toks.push_back(genValue(it, rng, g));
        }
        if (it.parseRaw()) { r.toks.back().mergeable = false; r.freeText = true; }
    }
    if (!g.allowTrailingDefaultInArray && afterAll && !r.toks.empty() && r.toks.back().isDefault) {
        for (const auto& it : prec) if (it.sizeType() == ParserItem::item_size::ALL) { Tok v = genValue(it, rng, g); v.single = false; r.toks.back() = v; break; }
    }
    if (!g.allowAllDefaultRecord) {
        bool allDef = !r.toks.empty();
        for (auto& t : r.toks) allDef = allDef && t.isDefault;
        if (allDef) {
            // replace the first token by a value
            for (const auto& it : prec) { Tok v = genValue(it, rng, g); v.single = it.sizeType() != ParserItem::item_size::ALL; r.toks[0] = v; break; }
        }
    }
    return r;
}

inline bool isSpecialName(const std::string& n) {
    static const std::set<std::string> s = {"TITLE", "INCLUDE", "PATHS", "END", "ENDINC", "SKIP", "SKIP100", "SKIP300", "ENDSKIP", "IMPORT", "PYINPUT",
                                            "RUNSPEC", "GRID", "EDIT", "PROPS", "REGIONS", "SOLUTION", "SUMMARY", "SCHEDULE"};
    return s.count(n) > 0;
}

struct Catalog {
    const Parser& parser;
    std::vector<std::string> names;    // generatable deck names (sorted)
    explicit Catalog(const Parser& p) : parser(p) {
        auto all = p.getAllDeckNames();
        std::sort(all.begin(), all.end());
        for (const auto& n : all) {
            if (!p.isRecognizedKeyword(n)) continue;
            if (!ParserKeyword::validDeckName(n)) continue;
            if (isSpecialName(n)) continue;
            const auto& kw = p.getParserKeywordFromDeckName(n);
            if (kw.isCodeKeyword()) continue;
            names.push_back(n);
        }
    }
};

// Generate one keyword; `sizeKw` (optional out): the size-defining keyword that must precede it in a strict deck.
inline bool genKeyword(const Parser& p, const std::string& name, Rng& rng, const GenOpts& g, Kw& out, std::vector<Kw>* prelude) {
    const auto& kw = p.getParserKeywordFromDeckName(name);
    out = Kw{};
    out.name = name;
    out.rawKw = kw.rawStringKeyword();
    const size_t nrec = std::distance(kw.begin(), kw.end());
    const auto st = kw.getSizeType();
    auto rec = [&](size_t i) { return genRecord(kw.getRecord(std::min(i, nrec - 1)), rng, g, out.rawKw); };
    if (nrec == 0) { out.cls = "norecord"; return st == FIXED || st == SLASH_TERMINATED || st == UNKNOWN; }
    if (st == FIXED || st == SPECIAL_CASE_ROCK) {
        out.cls = kw.isDataKeyword() ? "data" : "fixed";
        size_t n = st == SPECIAL_CASE_ROCK ? 1 : kw.getFixedSize();
        if (st == SPECIAL_CASE_ROCK) out.cls = "rock";
        for (size_t r = 0; r < n; ++r) out.recs.push_back(rec(r));
        out.fixedNoMin = !kw.min_size().has_value() && n == 1;
    } else if (st == SLASH_TERMINATED || st == UNKNOWN) {
        out.cls = st == UNKNOWN ? "unknown" : "slash";
        int n = 1 + (int)rng.below(g.maxRecs);
        if (kw.isAlternatingKeyword()) { out.cls += "-alternating"; for (int r = 0; r < n * (int)nrec; ++r) out.recs.push_back(rec(r % nrec)); }
        else if (kw.isDoubleRecordKeyword()) { out.cls += "-doublerec"; for (int r = 0; r < n; ++r) { out.recs.push_back(rec(0)); out.recs.push_back(rec(1)); } }
        else if (nrec > 1) { out.cls += "-multirec"; for (size_t r = 0; r < nrec; ++r) out.recs.push_back(rec(r)); }
        else for (int r = 0; r < n; ++r) out.recs.push_back(rec(0));
        out.finalSlash = true;
    } else if (st == DOUBLE_SLASH_TERMINATED) {
        out.cls = "dslash";
        int ngroups = 1 + (int)rng.below(2);
        for (int gI = 0; gI < ngroups; ++gI) {
            out.recs.push_back(rec(0));
            int m = 1 + (int)rng.below(2);
            for (int r = 0; r < m; ++r) out.recs.push_back(rec(1));
            out.slashAfter.resize(out.recs.size(), 0);
            out.slashAfter.back() = 1;
        }
        out.finalSlash = true;
    } else if (st == OTHER_KEYWORD_IN_DECK) {
        const auto& ks = kw.getKeywordSize();
        out.cls = kw.isTableCollection() ? "tablecoll" : "sized-by-other";
        int n = 1;
        try {
            const auto& sk = p.getKeyword(ks.keyword());
            const auto& sitem = sk.getRecord(0).get(ks.item());
            if (prelude) {
                // state the size explicitly through the size keyword (all other items random)
                int want = 1 + (int)rng.below(3);
                int itemval = want - ks.size_shift();
                if (itemval < 1) { itemval = 1; want = itemval + ks.size_shift(); }
                if (want < 1) return false;
                Kw pk; pk.name = sk.getName(); pk.cls = "fixed";
                if (std::distance(sk.begin(), sk.end()) != 1 || sk.getSizeType() != FIXED || sk.getFixedSize() != 1) return false;
                Rec r = genRecord(sk.getRecord(0), rng, g, false);
                size_t idx = 0;
                for (const auto& it : sk.getRecord(0)) { if (it.name() == ks.item()) break; ++idx; }
                if (idx >= r.toks.size()) return false;
                Tok t; t.text = std::to_string(itemval); t.type = type_tag::integer; r.toks[idx] = t;
                // items of size keywords are plain integers; keep the rest small so other keywords stay parseable
                pk.recs.push_back(r); pk.fixedNoMin = true;
                prelude->push_back(pk);
                n = want;
            } else {
                n = sitem.getDefault<int>() + ks.size_shift();
            }
        } catch (const std::exception&) { return false; }
        if (n < 1 || n > 40) return false;
        if (kw.isTableCollection()) {
            for (int t = 0; t < n; ++t) {
                int m = 1 + (int)rng.below(2);
                for (int r = 0; r < m; ++r) out.recs.push_back(rec(0));
                out.slashAfter.resize(out.recs.size(), 0);
                out.slashAfter.back() = 1;
            }
        } else {
            if (kw.isAlternatingKeyword()) n *= (int)nrec;
            for (int r = 0; r < n; ++r) out.recs.push_back(rec(r % std::max<size_t>(nrec, 1)));
        }
    } else {
        return false;
    }
    out.slashAfter.resize(out.recs.size(), 0);
    return true;
}

inline std::string renderRecordCanon(const Rec& r) {
    std::string s = " ";
    for (auto& t : r.toks) { s += t.text; s += " "; }
    s += "/\n";
    return s;
}

inline std::string renderCanon(const Kw& k) {
    if (k.verbatim) return k.text;
    std::string s = k.name + "\n";
    for (size_t i = 0; i < k.recs.size(); ++i) {
        s += renderRecordCanon(k.recs[i]);
        if (i < k.slashAfter.size() && k.slashAfter[i]) s += "/\n";
    }
    if (k.finalSlash) s += "/\n";
    return s;
}

inline std::string renderCanon(const DeckT& d) {
    std::string s;
    for (auto& k : d.kws) s += renderCanon(k) + "\n";
    return s;
}

// strict context: every recoverable parse problem throws, so silently ignored garbage cannot hide a difference
inline ParseContext strictContext() {
    ParseContext pc;
    pc.update(InputErrorAction::THROW_EXCEPTION);
    return pc;
}

} // namespace gkw
