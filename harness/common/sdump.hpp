// Structural dump through serializeOp: a visitor with the call interface of Opm::Serializer that renders any
// serialisable object as a canonical text tree.  Unordered containers are sorted by key, doubles are printed as
// bit patterns, KeywordLocation can be elided, lazily filled `mutable` caches are normalised first
// (UDQDefine::string_data is filled through input_string() on both sides).  Needs no change in /repo: every
// serializeOp is a template on the serializer type.
#pragma once
#include <config.h>
#include "ser_includes.hpp"
#include <opm/common/utility/Serializer.hpp>
#include <opm/common/utility/MemPacker.hpp>
#include <opm/common/utility/TimeService.hpp>
#include <sstream>
#include <map>
#include <set>
#include <unordered_map>
#include <unordered_set>
#include <variant>
#include <optional>
#include <type_traits>
#include <cstring>

namespace sdump {
using namespace Opm;

struct Options {
    bool elideLocations = false;
    bool floatAsSingle = false;   // compare doubles after rounding to float (restart round trips)
};

struct DumpVisitor {
    std::ostringstream out;
    Options opt;
    explicit DumpVisitor(const Options& o = Options{}) : opt(o) {}
    bool isSerializing() const { return true; }
    template <class T> struct is_vec : std::false_type {};
    template <class T, class A> struct is_vec<std::vector<T, A>> : std::true_type {};
    template <class T> struct is_opt : std::false_type {};
    template <class T> struct is_opt<std::optional<T>> : std::true_type {};
    template <class T> struct is_var : std::false_type {};
    template <class... T> struct is_var<std::variant<T...>> : std::true_type {};
    template <class T> struct is_pair : std::false_type {};
    template <class A, class B> struct is_pair<std::pair<A, B>> : std::true_type {};
    template <class... T> struct is_pair<std::tuple<T...>> : std::true_type {};
    template <class T> struct is_sp : std::false_type {};
    template <class T> struct is_sp<std::shared_ptr<T>> : std::true_type {};
    template <class T> struct is_sp<std::unique_ptr<T>> : std::true_type {};
    template <class T> struct is_map : std::false_type {};
    template <class K, class V, class C, class A> struct is_map<std::map<K, V, C, A>> : std::true_type {};
    template <class K, class V, class H, class E, class A> struct is_map<std::unordered_map<K, V, H, E, A>> : std::true_type {};
    template <class T> struct is_set : std::false_type {};
    template <class K, class C, class A> struct is_set<std::set<K, C, A>> : std::true_type {};
    template <class K, class H, class E, class A> struct is_set<std::unordered_set<K, H, E, A>> : std::true_type {};
    template <class T> struct is_arr : std::false_type {};
    template <class T, std::size_t N> struct is_arr<std::array<T, N>> : std::true_type {};
    template <class T, class = void> struct has_sop : std::false_type {};
    template <class T> struct has_sop<T, std::void_t<decltype(std::declval<T&>().serializeOp(std::declval<DumpVisitor&>()))>> : std::true_type {};

    template <class T> std::string sub(const T& x) { DumpVisitor v(opt); v(x); return v.out.str(); }

    template <class T> void operator()(const T& x) {
        using U = std::remove_cv_t<std::remove_reference_t<T>>;
        if constexpr (is_sp<U>::value) { if (x) { out << "&"; (*this)(*x); } else out << "null"; }
        else if constexpr (is_pair<U>::value) { out << "("; std::apply([this](const auto&... e) { ((this->operator()(e), out << ","), ...); }, x); out << ")"; }
        else if constexpr (is_var<U>::value) { out << "v" << x.index() << ":"; std::visit([this](const auto& e) { (*this)(e); }, x); }
        else if constexpr (is_opt<U>::value) { if (x) { out << "some:"; (*this)(*x); } else out << "none"; }
        else if constexpr (std::is_same_v<U, std::vector<bool>>) { out << "["; for (bool b : x) out << (b ? '1' : '0'); out << "]"; }
        else if constexpr (is_vec<U>::value || is_arr<U>::value) { out << "["; for (const auto& e : x) { (*this)(e); out << ","; } out << "]"; }
        else if constexpr (is_map<U>::value) { std::map<std::string, std::string> m; for (const auto& [k, v] : x) m[sub(k)] = sub(v); out << "{"; for (auto& [k, v] : m) out << k << "=>" << v << ";"; out << "}"; }
        else if constexpr (is_set<U>::value) { std::set<std::string> s; for (const auto& k : x) s.insert(sub(k)); out << "{"; for (auto& k : s) out << k << ";"; out << "}"; }
        else if constexpr (std::is_same_v<U, KeywordLocation>) { if (opt.elideLocations) out << "<loc>"; else { out << "<"; const_cast<U&>(x).serializeOp(*this); out << ">"; } }
        else if constexpr (std::is_same_v<U, UnitSystem>) {
            // m_dimensions is a memo of the composite dimension strings parsed so far (filled while *parsing* the deck) and
            // m_use_count a statistic: neither is observable state.  The conversion tables follow from name and type.
            out << "<UnitSystem " << x.getName() << " " << static_cast<long>(x.getType()) << ">";
        }
        else if constexpr (std::is_same_v<U, DeckItem>) {
            // DeckItem keeps its doubles either in deck units or in SI and converts lazily *in place* (mutable): reading a
            // keyword stored in an ACTIONX changes the representation, not the meaning.  Canonical form: SI values, 12 digits.
            out << "<DeckItem " << x.name() << " " << static_cast<int>(x.getType()) << " [";
            for (size_t i = 0; i < x.data_size(); ++i) {
                out << (x.defaultApplied(i) ? "D" : "V");
                if (!x.hasValue(i)) { out << "!,"; continue; }
                switch (x.getType()) {
                case type_tag::integer: out << x.template get<int>(i); break;
                case type_tag::string: out << '"' << x.template get<std::string>(i) << '"'; break;
                case type_tag::raw_string: out << '"' << x.template get<RawString>(i) << '"'; break;
                case type_tag::fdouble: { char b[40]; double v; try { v = x.getSIDouble(i); } catch (const std::exception&) { v = x.template get<double>(i); } snprintf(b, sizeof b, "%.12g", v); out << b; break; }
                case type_tag::uda: { const auto u = x.template get<UDAValue>(i); if (u.template is<double>()) { char b[40]; snprintf(b, sizeof b, "%.12g", u.template get<double>()); out << b; } else if (u.template is<std::string>()) out << '"' << u.template get<std::string>() << '"'; else out << "uda-none"; break; }
                default: out << "?";
                }
                out << ",";
            }
            out << "]>";
        }
        else if constexpr (std::is_same_v<U, SummaryState>) {
            // well_names / group_names are `mutable` caches filled by the const getters wells() / groups() (operator== uses them)
            (void)x.wells(); (void)x.groups();
            out << "<"; const_cast<U&>(x).serializeOp(*this); out << ">";
        }
        else if constexpr (std::is_same_v<U, UDQDefine>) { (void)x.input_string(); out << "<"; const_cast<U&>(x).serializeOp(*this); out << ">"; }
        else if constexpr (has_sop<U>::value) { out << "<"; const_cast<U&>(x).serializeOp(*this); out << ">"; }
        else if constexpr (std::is_same_v<U, std::string>) { out << '"' << x << '"'; }
        else if constexpr (std::is_floating_point_v<U>) {
            double d = x;
            if (opt.floatAsSingle) d = (double)(float)d;
            std::uint64_t b = 0; std::memcpy(&b, &d, 8); out << std::hex << b << std::dec;
        }
        else if constexpr (std::is_enum_v<U>) { out << static_cast<long>(x); }
        else if constexpr (std::is_arithmetic_v<U>) { out << +x; }
        else if constexpr (std::is_same_v<U, time_point>) { out << "t" << x.time_since_epoch().count(); }
        else { out << "pod" << sizeof(U) << ":"; const unsigned char* p = reinterpret_cast<const unsigned char*>(&x); for (size_t i = 0; i < sizeof(U); i++) out << std::hex << (int)p[i]; out << std::dec; }
        out << " ";
    }
};

template <class T> std::string dump(const T& x, const Options& o = Options{}) { DumpVisitor v(o); v(x); return v.out.str(); }

// first position where two dumps differ, with context
inline std::string firstDiff(const std::string& a, const std::string& b, size_t ctx = 200) {
    size_t i = 0, n = std::min(a.size(), b.size());
    while (i < n && a[i] == b[i]) ++i;
    if (i == n && a.size() == b.size()) return "";
    size_t s = i > ctx ? i - ctx : 0;
    return "at offset " + std::to_string(i) + ":\n  A: ..." + a.substr(s, 2 * ctx) + "\n  B: ..." + b.substr(s, 2 * ctx);
}

struct Ser : Serializer<Serialization::MemPacker> {
    using Serializer::Serializer;
    const std::vector<char>& buf() const { return m_buffer; }
};

} // namespace sdump
