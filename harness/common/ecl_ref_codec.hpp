// Independent reference codec for Eclipse array files ("result files": INIT, UNRST, EGRID, ...).
//
// Written from the published on-disk layout, NOT from opm-common: this header includes nothing of
// /repo and carries its own constants, so that a constant changed symmetrically in the library's
// reader and writer (block size, column width, header size) is still seen as a disagreement.
//
// Unformatted files
//   * every record is a Fortran sequential record: 4-byte big-endian byte count, payload, the same
//     4-byte count again;
//   * an array is a 16-byte header record {8 char name, blank padded; 4-byte big-endian element
//     count; 4 char type} followed, when count > 0, by data records of at most 1000 elements
//     (INTE, REAL, DOUB, LOGI) or 105 elements (CHAR, C0nn); all records but the last are full;
//   * INTE: 4-byte two's complement, REAL: IEEE-754 binary32, DOUB: binary64, all big-endian;
//     LOGI: 4 bytes, false = 0, true = 0xFFFFFFFF (ECLIPSE) or 0x00000001 (Intersect);
//     CHAR: 8 characters blank padded; C0nn: nn characters blank padded; MESS: header only, count 0.
// Formatted files
//   * header line  " 'NAME    ' %11d 'TYPE'"  (30 characters + newline);
//   * data in fixed-width columns, a line break after every <columns> elements and at the end of
//     every block of 1000 (105 for strings) elements and at the end of the array:
//       INTE 6 x 12 (I12), REAL 4 x 17, DOUB 3 x 23, LOGI 25 x 3 ("  T" / "  F"),
//       CHAR 7 x 11 (" 'xxxxxxxx'"), C0nn floor(80/(nn+3)) x (nn+3) (at least one per line);
//   * REAL  ECLIPSE: 0.dddddddd E+ee  (E17.8),  Intersect: d.ddddddd E+ee (C "%.7E")
//     DOUB  ECLIPSE: 0.dddddddddddddd D+ee (D23.14); with a three-digit exponent the letter is
//           dropped (0.dddddddddddddd+eee), Intersect: d.ddddddddddddd E+ee[e] (C "%.13E");
//     zero is written without sign; non-finite values as NAN / INF / -INF (the tokens strtod reads).
// The X231 continuation header for arrays of more than 2^31-1 elements is not implemented.
#pragma once
#include <cmath>
#include <cstdint>
#include <cstdio>
#include <cstdlib>
#include <cstring>
#include <limits>
#include <stdexcept>
#include <string>
#include <vector>

namespace eref {

enum Type { INTE = 0, REAL, DOUB, LOGI, CHAR, C0NN, MESS };

inline const char* type_name(Type t) {
    switch (t) {
    case INTE: return "INTE"; case REAL: return "REAL"; case DOUB: return "DOUB"; case LOGI: return "LOGI";
    case CHAR: return "CHAR"; case C0NN: return "C0NN"; case MESS: return "MESS";
    }
    return "?";
}

// ---- layout constants (own copy, from the format description) --------------------------------
constexpr int HEADER_PAYLOAD = 16;
constexpr int NUM_BLOCK = 1000;        // elements per data record / formatted block, numeric types
constexpr int STR_BLOCK = 105;         // elements per data record / formatted block, string types
constexpr uint32_t LOGI_TRUE_ECL = 0xFFFFFFFFu;
constexpr uint32_t LOGI_TRUE_IX = 0x00000001u;     // value of the big-endian word
constexpr int FMT_HEADER_CHARS = 30;   // without the newline

inline bool is_string(Type t) { return t == CHAR || t == C0NN; }
inline int block_elems(Type t) { return is_string(t) ? STR_BLOCK : NUM_BLOCK; }
inline int elem_bytes(Type t, int width) {
    switch (t) {
    case INTE: case REAL: case LOGI: return 4;
    case DOUB: return 8;
    case CHAR: return 8;
    case C0NN: return width;
    case MESS: return 0;
    }
    return 0;
}
inline int fmt_width(Type t, int width) {
    switch (t) {
    case INTE: return 12; case REAL: return 17; case DOUB: return 23; case LOGI: return 3;
    case CHAR: return 11; case C0NN: return width + 3; case MESS: return 0;
    }
    return 0;
}
inline int fmt_columns(Type t, int width) {
    switch (t) {
    case INTE: return 6; case REAL: return 4; case DOUB: return 3; case LOGI: return 25; case CHAR: return 7;
    case C0NN: { int c = 80 / (width + 3); return c < 1 ? 1 : c; }
    case MESS: return 1;
    }
    return 1;
}

struct Array {
    std::string name;            // at most 8 characters, stored without trailing blanks
    Type type = MESS;
    int width = 8;               // characters per element: 8 for CHAR, nn for C0nn
    std::vector<int32_t> iv;
    std::vector<float> rv;
    std::vector<double> dv;
    std::vector<unsigned char> lv;
    std::vector<std::string> sv; // without trailing blanks
    // filled by decode_formatted only: the double nearest to the printed text of each REAL element
    std::vector<double> rtext;
    int64_t count() const {
        switch (type) {
        case INTE: return (int64_t)iv.size(); case REAL: return (int64_t)rv.size(); case DOUB: return (int64_t)dv.size();
        case LOGI: return (int64_t)lv.size(); case CHAR: case C0NN: return (int64_t)sv.size(); case MESS: return 0;
        }
        return 0;
    }
};

struct Entry {
    std::string name;            // without trailing blanks
    Type type = MESS;
    int width = 8;
    int64_t count = 0;
    uint64_t header_off = 0;     // first byte of the header record / header line
    uint64_t data_off = 0;       // first byte after the header (start of the first data record / data line)
    uint64_t end_off = 0;        // first byte after the array
    bool canonical = true;       // unformatted: every data record but the last is full
};

// ---- closed-form sizes (used to cross-check seek arithmetic) ---------------------------------
inline uint64_t unformatted_data_bytes(Type t, int width, int64_t count) {
    if (t == MESS || count <= 0) return 0;
    const uint64_t B = (uint64_t)block_elems(t), es = (uint64_t)elem_bytes(t, width), n = (uint64_t)count;
    const uint64_t records = (n + B - 1) / B;
    return n * es + records * 8;
}
// offset of element k relative to the start of the formatted data
inline uint64_t formatted_field_offset(Type t, int width, int64_t k) {
    const uint64_t B = (uint64_t)block_elems(t), w = (uint64_t)fmt_width(t, width), c = (uint64_t)fmt_columns(t, width);
    const uint64_t lines_per_block = (B + c - 1) / c;
    const uint64_t blk = (uint64_t)k / B, in = (uint64_t)k % B;
    return blk * (B * w + lines_per_block) + in * w + in / c;
}
inline uint64_t formatted_data_bytes(Type t, int width, int64_t count) {
    if (t == MESS || count <= 0) return 0;
    // position after the last element plus its line break
    return formatted_field_offset(t, width, count - 1) + (uint64_t)fmt_width(t, width) + 1;
}

// ---- helpers -----------------------------------------------------------------------------------
inline void put_be32(std::string& o, uint32_t v) {
    o.push_back((char)((v >> 24) & 0xff)); o.push_back((char)((v >> 16) & 0xff));
    o.push_back((char)((v >> 8) & 0xff)); o.push_back((char)(v & 0xff));
}
inline void put_be64(std::string& o, uint64_t v) { put_be32(o, (uint32_t)(v >> 32)); put_be32(o, (uint32_t)(v & 0xffffffffu)); }
inline uint32_t get_be32(const std::string& s, size_t p) {
    return ((uint32_t)(unsigned char)s[p] << 24) | ((uint32_t)(unsigned char)s[p + 1] << 16) |
           ((uint32_t)(unsigned char)s[p + 2] << 8) | (uint32_t)(unsigned char)s[p + 3];
}
inline uint64_t get_be64(const std::string& s, size_t p) { return ((uint64_t)get_be32(s, p) << 32) | get_be32(s, p + 4); }

inline std::string rtrim(const std::string& s) {
    size_t n = s.size();
    while (n > 0 && s[n - 1] == ' ') --n;
    return s.substr(0, n);
}
inline std::string pad(const std::string& s, size_t n) {
    if (s.size() > n) throw std::invalid_argument("eref: string '" + s + "' longer than field of " + std::to_string(n));
    return s + std::string(n - s.size(), ' ');
}
inline std::string type4(Type t, int width) {
    if (t != C0NN) return type_name(t);
    if (width < 1 || width > 999) throw std::invalid_argument("eref: C0nn width out of range");
    char b[8]; snprintf(b, sizeof b, "C%03d", width);
    return b;
}
inline bool parse_type4(const std::string& s, Type& t, int& width) {
    width = 8;
    if (s == "INTE") { t = INTE; return true; }
    if (s == "REAL") { t = REAL; return true; }
    if (s == "DOUB") { t = DOUB; return true; }
    if (s == "LOGI") { t = LOGI; return true; }
    if (s == "CHAR") { t = CHAR; return true; }
    if (s == "MESS") { t = MESS; return true; }
    if (s.size() == 4 && s[0] == 'C' && isdigit((unsigned char)s[1]) && isdigit((unsigned char)s[2]) && isdigit((unsigned char)s[3])) {
        t = C0NN; width = (s[1] - '0') * 100 + (s[2] - '0') * 10 + (s[3] - '0');
        return width >= 1;
    }
    return false;
}

// ---- unformatted -------------------------------------------------------------------------------
inline void encode_unformatted_array(std::string& o, const Array& a, bool ix) {
    const int64_t n = a.count();
    if (n > 0x7fffffffLL) throw std::invalid_argument("eref: X231 arrays not supported");
    put_be32(o, HEADER_PAYLOAD);
    o += pad(a.name, 8);
    put_be32(o, (uint32_t)n);
    o += type4(a.type, a.width);
    put_be32(o, HEADER_PAYLOAD);
    if (a.type == MESS) return;
    const int B = block_elems(a.type), es = elem_bytes(a.type, a.width);
    for (int64_t first = 0; first < n; first += B) {
        const int64_t m = std::min<int64_t>(B, n - first);
        put_be32(o, (uint32_t)(m * es));
        for (int64_t k = first; k < first + m; ++k) {
            switch (a.type) {
            case INTE: put_be32(o, (uint32_t)a.iv[k]); break;
            case REAL: { uint32_t b; std::memcpy(&b, &a.rv[k], 4); put_be32(o, b); break; }
            case DOUB: { uint64_t b; std::memcpy(&b, &a.dv[k], 8); put_be64(o, b); break; }
            case LOGI: put_be32(o, a.lv[k] ? (ix ? LOGI_TRUE_IX : LOGI_TRUE_ECL) : 0u); break;
            case CHAR: case C0NN: o += pad(a.sv[k], (size_t)es); break;
            case MESS: break;
            }
        }
        put_be32(o, (uint32_t)(m * es));
    }
}
inline std::string encode_unformatted(const std::vector<Array>& arrays, bool ix) {
    std::string o;
    for (const auto& a : arrays) encode_unformatted_array(o, a, ix);
    return o;
}

// Decodes as many complete arrays as the bytes hold.  Returns true when the whole input was
// consumed; otherwise `err` says what is wrong at which offset and out/idx hold the arrays before.
inline bool decode_unformatted(const std::string& s, std::vector<Array>& out, std::vector<Entry>& idx, std::string& err) {
    out.clear(); idx.clear(); err.clear();
    size_t p = 0;
    auto fail = [&](const std::string& m, size_t at) { err = m + " at offset " + std::to_string(at); return false; };
    while (p < s.size()) {
        Entry e; e.header_off = p;
        if (s.size() - p < 24) return fail("truncated header record", p);
        if (get_be32(s, p) != (uint32_t)HEADER_PAYLOAD) return fail("header record length is not 16", p);
        if (get_be32(s, p + 20) != (uint32_t)HEADER_PAYLOAD) return fail("header record tail is not 16", p + 20);
        const std::string name8 = s.substr(p + 4, 8), t4 = s.substr(p + 16, 4);
        const int32_t cnt = (int32_t)get_be32(s, p + 12);
        if (t4 == "X231") return fail("X231 header not supported by the reference codec", p);
        if (!parse_type4(t4, e.type, e.width)) return fail("unknown type '" + t4 + "'", p + 16);
        if (cnt < 0) return fail("negative element count", p + 12);
        if (e.type == MESS && cnt != 0) return fail("MESS with elements", p + 12);
        e.name = rtrim(name8); e.count = cnt;
        p += 24; e.data_off = p;
        Array a; a.name = e.name; a.type = e.type; a.width = e.type == C0NN ? e.width : 8;
        const int B = block_elems(e.type), es = elem_bytes(e.type, e.width);
        int64_t rest = cnt;
        while (rest > 0) {
            if (s.size() - p < 4) return fail("truncated data record head", p);
            const uint32_t head = get_be32(s, p);
            if (head == 0 || head % (uint32_t)es != 0) return fail("data record length " + std::to_string(head) + " is not a positive multiple of the element size", p);
            const int64_t m = head / (uint32_t)es;
            if (m > B) return fail("data record holds more than " + std::to_string(B) + " elements", p);
            if (m > rest) return fail("data record holds more elements than the header announced", p);
            if (m < B && m != rest) e.canonical = false;
            if (s.size() - p < (size_t)head + 8) return fail("truncated data record", p);
            p += 4;
            for (int64_t k = 0; k < m; ++k, p += (size_t)es) {
                switch (e.type) {
                case INTE: a.iv.push_back((int32_t)get_be32(s, p)); break;
                case REAL: { uint32_t b = get_be32(s, p); float f; std::memcpy(&f, &b, 4); a.rv.push_back(f); break; }
                case DOUB: { uint64_t b = get_be64(s, p); double d; std::memcpy(&d, &b, 8); a.dv.push_back(d); break; }
                case LOGI: {
                    const uint32_t b = get_be32(s, p);
                    if (b == 0u) a.lv.push_back(0);
                    else if (b == LOGI_TRUE_ECL || b == LOGI_TRUE_IX) a.lv.push_back(1);
                    else return fail("LOGI word is neither false nor one of the two true values", p);
                    break; }
                case CHAR: case C0NN: a.sv.push_back(rtrim(s.substr(p, (size_t)es))); break;
                case MESS: break;
                }
            }
            if (get_be32(s, p) != head) return fail("data record tail differs from its head", p);
            p += 4;
            rest -= m;
        }
        e.end_off = p;
        out.push_back(std::move(a)); idx.push_back(e);
    }
    return true;
}

// ---- formatted: number formats ------------------------------------------------------------------
// scientific digits of a finite non-zero value: sign, `nd` significant digits, decimal exponent of d.ddd form
struct SciDigits { bool neg; std::string digits; int exp10; };
inline SciDigits sci_digits(double v, int nd) {
    char b[64];
    snprintf(b, sizeof b, "%.*e", nd - 1, v);
    SciDigits r; const char* p = b;
    r.neg = (*p == '-'); if (r.neg) ++p;
    r.digits.push_back(*p++);
    if (*p == '.') ++p;
    while (*p && *p != 'e') r.digits.push_back(*p++);
    r.exp10 = atoi(p + 1);
    return r;
}
inline std::string nonfinite_token(double v) { return std::isnan(v) ? "NAN" : (v > 0 ? "INF" : "-INF"); }
inline std::string exp_field(int e, int min_digits) {
    char b[16]; snprintf(b, sizeof b, "%c%0*d", e < 0 ? '-' : '+', min_digits, std::abs(e));
    return b;
}
inline std::string text_real(float f, bool ix) {
    const double v = f;
    if (!std::isfinite(v)) return nonfinite_token(v);
    if (v == 0.0) return ix ? "0.0000000E+00" : "0.00000000E+00";
    const SciDigits d = sci_digits(v, 8);
    if (ix) return std::string(d.neg ? "-" : "") + d.digits.substr(0, 1) + "." + d.digits.substr(1) + "E" + exp_field(d.exp10, 2);
    return std::string(d.neg ? "-" : "") + "0." + d.digits + "E" + exp_field(d.exp10 + 1, 2);
}
inline std::string text_doub(double v, bool ix) {
    if (!std::isfinite(v)) return nonfinite_token(v);
    if (v == 0.0) return ix ? "0.0000000000000E+00" : "0.00000000000000D+00";
    const SciDigits d = sci_digits(v, 14);
    if (ix) return std::string(d.neg ? "-" : "") + d.digits.substr(0, 1) + "." + d.digits.substr(1) + "E" + exp_field(d.exp10, 2);
    const int e = d.exp10 + 1;
    const bool three = std::abs(e) > 99;
    return std::string(d.neg ? "-" : "") + "0." + d.digits + (three ? "" : "D") + exp_field(e, three ? 3 : 2);
}
// Half a unit of the last printed digit (nd significant digits) of v: the distance a printed value
// may have from the value it was printed from.
inline double printed_half_unit(double v, int nd) {
    if (!std::isfinite(v) || v == 0.0) return 0.0;
    const SciDigits d = sci_digits(v, nd);
    return 0.5 * std::pow(10.0, d.exp10 - (nd - 1));
}
// strict real-number token: [sign] digits [. digits] [ (E|D|e|d) [sign] digits | sign digits ], or NAN / INF / -INF
inline bool parse_real_token(const std::string& tok, double& v) {
    if (tok == "NAN") { v = std::numeric_limits<double>::quiet_NaN(); return true; }
    if (tok == "INF" || tok == "+INF") { v = std::numeric_limits<double>::infinity(); return true; }
    if (tok == "-INF") { v = -std::numeric_limits<double>::infinity(); return true; }
    std::string n; size_t i = 0;
    if (i < tok.size() && (tok[i] == '+' || tok[i] == '-')) n.push_back(tok[i++]);
    size_t nd = 0;
    while (i < tok.size() && isdigit((unsigned char)tok[i])) { n.push_back(tok[i++]); ++nd; }
    if (i < tok.size() && tok[i] == '.') { n.push_back(tok[i++]); while (i < tok.size() && isdigit((unsigned char)tok[i])) { n.push_back(tok[i++]); ++nd; } }
    if (nd == 0) return false;
    if (i < tok.size()) {
        if (tok[i] == 'E' || tok[i] == 'D' || tok[i] == 'e' || tok[i] == 'd') { ++i; n.push_back('e'); if (i < tok.size() && (tok[i] == '+' || tok[i] == '-')) n.push_back(tok[i++]); }
        else if (tok[i] == '+' || tok[i] == '-') { n.push_back('e'); n.push_back(tok[i++]); }
        else return false;
        size_t ne = 0;
        while (i < tok.size() && isdigit((unsigned char)tok[i])) { n.push_back(tok[i++]); ++ne; }
        if (ne == 0 || i != tok.size()) return false;
    }
    char* end = nullptr;
    v = strtod(n.c_str(), &end);     // a subnormal or overflowing result is still returned (ERANGE is not an error here)
    return end && *end == 0;
}

// ---- formatted ---------------------------------------------------------------------------------
inline std::string right_justify(const std::string& s, int w) {
    if ((int)s.size() >= w) return s;      // never happens for the forms above; keeps the text visible if it would
    return std::string((size_t)(w - (int)s.size()), ' ') + s;
}
inline std::string formatted_field(const Array& a, int64_t k, bool ix) {
    switch (a.type) {
    case INTE: return right_justify(std::to_string(a.iv[k]), 12);
    case REAL: return right_justify(text_real(a.rv[k], ix), 17);
    case DOUB: return right_justify(text_doub(a.dv[k], ix), 23);
    case LOGI: return a.lv[k] ? "  T" : "  F";
    case CHAR: return " '" + pad(a.sv[k], 8) + "'";
    case C0NN: return " '" + pad(a.sv[k], (size_t)a.width) + "'";
    case MESS: break;
    }
    return "";
}
inline void encode_formatted_array(std::string& o, const Array& a, bool ix) {
    const int64_t n = a.count();
    char cnt[32]; snprintf(cnt, sizeof cnt, "%11lld", (long long)n);
    o += " '" + pad(a.name, 8) + "' " + cnt + " '" + type4(a.type, a.width) + "'\n";
    if (a.type == MESS) return;
    const int B = block_elems(a.type), c = fmt_columns(a.type, a.width);
    for (int64_t k = 0; k < n; ++k) {
        o += formatted_field(a, k, ix);
        const int64_t in = k % B + 1;      // elements so far in this block
        if (in % c == 0 || in == B || k == n - 1) o.push_back('\n');
    }
}
inline std::string encode_formatted(const std::vector<Array>& arrays, bool ix) {
    std::string o;
    for (const auto& a : arrays) encode_formatted_array(o, a, ix);
    return o;
}

inline bool decode_formatted(const std::string& s, std::vector<Array>& out, std::vector<Entry>& idx, std::string& err) {
    out.clear(); idx.clear(); err.clear();
    size_t p = 0;
    auto fail = [&](const std::string& m, size_t at) { err = m + " at offset " + std::to_string(at); return false; };
    while (p < s.size()) {
        Entry e; e.header_off = p;
        const size_t nl = s.find('\n', p);
        if (nl == std::string::npos) return fail("header line without line end", p);
        const std::string h = s.substr(p, nl - p);
        if ((int)h.size() != FMT_HEADER_CHARS) return fail("header line has " + std::to_string(h.size()) + " characters, not 30: [" + h + "]", p);
        if (h[0] != ' ' || h[1] != '\'' || h[10] != '\'' || h[11] != ' ' || h[23] != ' ' || h[24] != '\'' || h[29] != '\'')
            return fail("header line delimiters misplaced: [" + h + "]", p);
        const std::string t4 = h.substr(25, 4);
        if (!parse_type4(t4, e.type, e.width)) return fail("unknown type '" + t4 + "'", p + 25);
        std::string cnt = h.substr(12, 11);
        size_t q = cnt.find_first_not_of(' ');
        if (q == std::string::npos) return fail("empty element count", p + 12);
        cnt = cnt.substr(q);
        for (char ch : cnt) if (!isdigit((unsigned char)ch)) return fail("element count is not a right-justified non-negative integer: [" + h + "]", p + 12);
        e.count = atoll(cnt.c_str());
        if (e.type == MESS && e.count != 0) return fail("MESS with elements", p + 12);
        e.name = rtrim(h.substr(2, 8));
        p = nl + 1; e.data_off = p;
        Array a; a.name = e.name; a.type = e.type; a.width = e.type == C0NN ? e.width : 8;
        const int B = block_elems(e.type), c = fmt_columns(e.type, e.width), w = fmt_width(e.type, e.width);
        for (int64_t k = 0; k < e.count; ++k) {
            if (s.size() - p < (size_t)w) return fail("truncated data field", p);
            const std::string f = s.substr(p, (size_t)w);
            if (f.find('\n') != std::string::npos) return fail("line break inside a data field (element " + std::to_string(k) + ")", p);
            switch (e.type) {
            case INTE: {
                size_t b = f.find_first_not_of(' ');
                if (b == std::string::npos) return fail("blank INTE field", p);
                const std::string tok = f.substr(b);
                size_t i = (tok[0] == '-' || tok[0] == '+') ? 1 : 0;
                if (i == tok.size()) return fail("bad INTE field [" + f + "]", p);
                for (size_t j = i; j < tok.size(); ++j) if (!isdigit((unsigned char)tok[j])) return fail("bad INTE field [" + f + "]", p);
                const long long v = atoll(tok.c_str());
                if (v < -2147483648LL || v > 2147483647LL) return fail("INTE out of 32-bit range [" + f + "]", p);
                a.iv.push_back((int32_t)v);
                break; }
            case REAL: case DOUB: {
                size_t b = f.find_first_not_of(' ');
                if (b == std::string::npos) return fail("blank real field", p);
                double v;
                if (!parse_real_token(f.substr(b), v)) return fail("bad real field [" + f + "]", p);
                if (e.type == REAL) { a.rtext.push_back(v); a.rv.push_back((float)v); } else a.dv.push_back(v);
                break; }
            case LOGI:
                if (f == "  T") a.lv.push_back(1); else if (f == "  F") a.lv.push_back(0); else return fail("bad LOGI field [" + f + "]", p);
                break;
            case CHAR: case C0NN:
                if (f[0] != ' ' || f[1] != '\'' || f[(size_t)w - 1] != '\'') return fail("bad string field [" + f + "]", p);
                a.sv.push_back(rtrim(f.substr(2, (size_t)w - 3)));
                break;
            case MESS: break;
            }
            p += (size_t)w;
            const int64_t in = k % B + 1;
            if (in % c == 0 || in == B || k == e.count - 1) {
                if (p >= s.size() || s[p] != '\n') return fail("missing line break after element " + std::to_string(k), p);
                ++p;
            }
        }
        e.end_off = p;
        out.push_back(std::move(a)); idx.push_back(e);
    }
    return true;
}

// ---- comparison ----------------------------------------------------------------------------------
inline bool same_bits(float a, float b) { return std::memcmp(&a, &b, 4) == 0; }
inline bool same_bits(double a, double b) { return std::memcmp(&a, &b, 8) == 0; }

// bit-exact equality of two arrays (name, type, width, every element); `why` names the first difference
inline bool equal_exact(const Array& a, const Array& b, std::string& why) {
    char buf[200];
    if (a.name != b.name) { why = "name '" + a.name + "' vs '" + b.name + "'"; return false; }
    if (a.type != b.type) { why = std::string("type ") + type_name(a.type) + " vs " + type_name(b.type); return false; }
    if (a.type == C0NN && a.width != b.width) { why = "C0nn width " + std::to_string(a.width) + " vs " + std::to_string(b.width); return false; }
    if (a.count() != b.count()) { why = "length " + std::to_string(a.count()) + " vs " + std::to_string(b.count()); return false; }
    for (int64_t k = 0; k < a.count(); ++k) {
        bool ok = true;
        switch (a.type) {
        case INTE: ok = a.iv[k] == b.iv[k]; if (!ok) snprintf(buf, sizeof buf, "element %lld: %d vs %d", (long long)k, a.iv[k], b.iv[k]); break;
        case REAL: ok = same_bits(a.rv[k], b.rv[k]); if (!ok) snprintf(buf, sizeof buf, "element %lld: %.9g vs %.9g", (long long)k, a.rv[k], b.rv[k]); break;
        case DOUB: ok = same_bits(a.dv[k], b.dv[k]); if (!ok) snprintf(buf, sizeof buf, "element %lld: %.17g vs %.17g", (long long)k, a.dv[k], b.dv[k]); break;
        case LOGI: ok = (a.lv[k] != 0) == (b.lv[k] != 0); if (!ok) snprintf(buf, sizeof buf, "element %lld: %d vs %d", (long long)k, a.lv[k], b.lv[k]); break;
        case CHAR: case C0NN: ok = a.sv[k] == b.sv[k]; if (!ok) snprintf(buf, sizeof buf, "element %lld: '%.60s' vs '%.60s'", (long long)k, a.sv[k].c_str(), b.sv[k].c_str()); break;
        case MESS: break;
        }
        if (!ok) { why = buf; return false; }
    }
    return true;
}

inline std::string describe(const Array& a, int max_elems = 6) {
    std::string o = "'" + a.name + "' " + (a.type == C0NN ? type4(a.type, a.width) : std::string(type_name(a.type))) + " n=" + std::to_string(a.count()) + " [";
    char b[80];
    for (int64_t k = 0; k < a.count() && k < max_elems; ++k) {
        switch (a.type) {
        case INTE: snprintf(b, sizeof b, "%d", a.iv[k]); break;
        case REAL: snprintf(b, sizeof b, "%.9g", a.rv[k]); break;
        case DOUB: snprintf(b, sizeof b, "%.17g", a.dv[k]); break;
        case LOGI: snprintf(b, sizeof b, "%c", a.lv[k] ? 'T' : 'F'); break;
        case CHAR: case C0NN: snprintf(b, sizeof b, "'%.40s'", a.sv[k].c_str()); break;
        case MESS: b[0] = 0; break;
        }
        o += (k ? " " : ""); o += b;
    }
    if (a.count() > max_elems) o += " ...";
    return o + "]";
}

} // namespace eref
