// C04 — applying an ACTIONX equals inlining its keywords; earlier steps are immutable.
//
// Relational monitor: for a generated schedule S with ACTIONX blocks, Schedule::applyAction(n, A, M) is compared with
// the Schedule built from the deck in which A's body (matched wells substituted for '?', one record per well in
// matching order) is written at the end of report step n.  Every state k != n must have an identical structural
// dump (locations elided), state n may differ only in the ACTIONX_WELL_EVENT markers, states < n must be
// bit-identical before and after the application (also watched online through hook H1), and sequences of
// applications with non-decreasing step equal inlining in that order.
#include "common/sdump.hpp"
#include "common/gdeck.hpp"
#include <opm/input/eclipse/Parser/Parser.hpp>
#include <opm/input/eclipse/Parser/ParseContext.hpp>
#include <opm/input/eclipse/Parser/ErrorGuard.hpp>
#include <opm/input/eclipse/EclipseState/EclipseState.hpp>
#include <opm/input/eclipse/Schedule/Schedule.hpp>
#include <opm/input/eclipse/Schedule/ScheduleState.hpp>
#include <opm/input/eclipse/Schedule/VerifHook.hpp>
#include <opm/input/eclipse/Schedule/Action/Actions.hpp>
#include <opm/input/eclipse/Schedule/Action/ActionX.hpp>
#include <opm/input/eclipse/Schedule/Action/ActionResult.hpp>
#include <opm/input/eclipse/Schedule/Action/SimulatorUpdate.hpp>
#include <opm/input/eclipse/Python/Python.hpp>

using namespace Opm;
using vh::Rng;

struct Built { std::unique_ptr<EclipseState> es; std::unique_ptr<Schedule> sched; };

static Built build(Parser& parser, const std::string& text, const std::shared_ptr<Python>& python) {
    Built b;
    ParseContext pc; ErrorGuard eg;
    Deck deck = parser.parseString(text, pc, eg);
    b.es = std::make_unique<EclipseState>(deck);
    b.sched = std::make_unique<Schedule>(deck, *b.es, pc, eg, python);
    return b;
}

static std::string errClass(const std::string& w) {
    std::string l = w.substr(0, w.find('\n'));
    std::string o; for (char c : l) if (!std::isdigit((unsigned char)c)) o += c;
    return o.substr(0, 70);
}

static std::string dumpState(const ScheduleState& st, bool maskActionEvent) {
    sdump::Options o; o.elideLocations = true;
    if (!maskActionEvent) return sdump::dump(st, o);
    ScheduleState c = st;
    c.events().clearEvent(ScheduleEvents::ACTIONX_WELL_EVENT);
    for (const auto& w : c.well_order()) c.wellgroup_events().clearEvent(w, ScheduleEvents::ACTIONX_WELL_EVENT);
    return sdump::dump(c, o);
}

struct Application { size_t actionIdx; size_t step; std::vector<std::string> wells; };

int main(int argc, char** argv) {
    vh::Args args = vh::parse_args(argc, argv);
    vh::Reporter rep(args, "C04");
    Parser parser;
    auto python = std::make_shared<Python>();
    const int maxApps = (int)args.geti("max_apps", 3);

    rep.run_cases([&](long idx, Rng& rng) {
        gdeck::Opts o;
        o.actions = false;            // actions are added here, structured
        o.geoModifiers = false;
        // The statement exempts keywords whose meaning is defined per report step: a well-wide WPIMULT of the deck is applied when
        // its step closes, i.e. before an action applied at that step but after the same keywords when they are inlined (seen as a
        // WellConnections rebuilt with the head a WELSPECS body had just changed).  No WPIMULT in the C04 schedules.
        o.wpimult = false;
        // Inside an action body it stays: with no WPIMULT in the deck proper, and no second application at the same report step
        // (checked below), nothing accumulates within the step and the applied body must scale the connections like the inlined one.
        o.actionWpimult = true;
        o.minSteps = 3; o.maxSteps = 7;
        gdeck::Generator gen(rng, o);
        gdeck::Model m = gen.generate();
        const size_t nsteps = m.steps.size();
        // 1..3 actions, each defined in some step
        int nact = 1 + (int)rng.below(3);
        for (int a = 0; a < nact; ++a) {
            gdeck::ActionM A;
            A.name = "ACT" + std::to_string(a + 1);
            A.maxRun = 10; A.minWait = 0;
            A.condition = " FOPR > 0 /\n";
            A.definedAtStep = (int)rng.below(nsteps - 1);
            gen.curStep = A.definedAtStep;
            A.body = gen.actionBody(1 + (int)rng.below(3));
            // WELPI inside an action scales the well's connection factors when the action runs (the simulator supplies the current
            // productivity index); in the deck proper it only leaves a request.  So there is nothing to inline against, but the
            // past must stay as it is: such bodies are checked for that only.
            if (rng.chance(0.12) && !m.wells.empty()) { { const auto* pw = &m.wells[rng.below(m.wells.size())]; gdeck::BodyKw b; b.name = "WELPI"; b.records = {"'" + pw->name + "' " + gdeck::fmtd(5 + rng.below(40)) + " /"}; A.body.push_back(b); } }
            if (A.body.empty()) continue;
            m.steps[A.definedAtStep].kws.push_back({"ACTIONX", A.render()});
            m.actions.push_back(A);
        }
        if (m.actions.empty()) { rep.count("no_action_generated"); return; }
        const std::string stat = m.staticPart();
        const std::string base = stat + "SCHEDULE\n" + m.scheduleText();
        Built S;
        try { S = build(parser, base, python); }
        catch (const std::exception& e) { rep.count("base_refused"); rep.cover("base_refused_why", errClass(e.what())); if (args.replaying) fprintf(stderr, "REFUSED: %s\n%s\n", e.what(), base.c_str()); return; }
        Schedule& sched = *S.sched;
        if (sched.size() != nsteps + 1) { rep.count("step_count_mismatch"); return; }

        // applications with non-decreasing step
        std::vector<Application> apps;
        int napp = 1 + (int)rng.below(maxApps);
        size_t stepLo = 0;
        for (int q = 0; q < napp; ++q) {
            Application ap;
            ap.actionIdx = rng.below(m.actions.size());
            size_t def = (size_t)m.actions[ap.actionIdx].definedAtStep;
            size_t lo = std::max(stepLo, def);
            if (lo >= nsteps) break;
            ap.step = lo + rng.below(nsteps - lo);
            stepLo = ap.step;
            apps.push_back(ap);
        }
        if (apps.empty()) return;
        {   // WPIMULT accumulation within one report step is exempt: a body with WPIMULT is the only application at its step
            std::map<size_t, int> perStep, withWpi;
            for (auto& ap : apps) { ++perStep[ap.step]; for (auto& bk : m.actions[ap.actionIdx].body) if (bk.name == "WPIMULT") { ++withWpi[ap.step]; break; } }
            for (auto& kv : withWpi) if (perStep[kv.first] > 1) { rep.count("skipped_wpimult_accumulation_in_step"); return; }
        }

        std::vector<std::vector<std::string>> inlineAt(nsteps);   // body texts to append to each step
        std::string trace;
        bool changedSomething = false;
        // hook: the past must not change while actions are applied
        std::vector<std::string> pastViolation;
        long hookEvents = 0;
        std::set<std::string> kwModes;
        for (size_t q = 0; q < apps.size(); ++q) {
            auto& ap = apps[q];
            const auto& AM = m.actions[ap.actionIdx];
            // matching wells: random subset of the wells existing at that step
            auto names = sched.wellNames(ap.step);
            // `names` is the schedule's well order (order of definition): the order in which the library visits the wells of '?'
            // (WellMatcher::sort) and therefore the order of the inlined records.  Result::wells() takes them in any order.
            for (auto& w : names) if (rng.chance(0.5)) ap.wells.push_back(w);
            bool needsWells = false;
            for (auto& b : AM.body) needsWells = needsWells || b.perWell;
            if (needsWells && ap.wells.empty()) { if (names.empty()) { rep.count("no_wells_at_step"); return; } ap.wells.push_back(names[rng.below(names.size())]); }
            trace += "apply " + AM.name + " at report step " + std::to_string(ap.step) + " with matching wells {";
            for (auto& w : ap.wells) trace += w + " ";
            trace += "}\n";
            // states before the step, before applying
            std::vector<std::string> before;
            for (size_t j = 0; j < ap.step; ++j) before.push_back(sdump::dump(sched[j]));
            std::string stepBefore = dumpState(sched[ap.step], true);
            const size_t step = ap.step;
            Opm::Verif::scheduleKeywordHook() = [&](const Schedule& s, std::size_t rs, const std::string& kw, bool ax) {
                ++hookEvents;
                kwModes.insert((kw.empty() ? std::string("<end_report>") : kw) + (ax ? "/actionx" : ""));
                for (size_t j = 0; j < step && j < s.size(); ++j)
                    if (sdump::dump(s[j]) != before[j] && pastViolation.empty())
                        pastViolation = {"past-snapshot-mutated-by-action:" + (kw.empty() ? std::string("end_report") : kw), "snapshot " + std::to_string(j) + " changed while " + (kw.empty() ? "closing" : "handling " + kw + " in") + " report step " + std::to_string(rs) + " during applyAction at step " + std::to_string(step)};
            };
            try {
                if (!sched[ap.step].actions().has(AM.name)) { Opm::Verif::scheduleKeywordHook() = nullptr; rep.count("action_not_present_at_step"); return; }
                const auto& action = sched[ap.step].actions()[AM.name];
                std::vector<std::string> shuffled = ap.wells;
                rng.shuffle(shuffled);
                auto res = Action::Result{true}.wells(shuffled);
                std::unordered_map<std::string, double> wellpi;
                for (auto& wn : names) wellpi[wn] = 10.0;
                sched.applyAction(ap.step, action, res.matches(), wellpi);
            } catch (const std::exception& e) {
                Opm::Verif::scheduleKeywordHook() = nullptr;
                rep.count("apply_refused"); rep.cover("apply_refused_why", errClass(e.what()));
                return;
            }
            Opm::Verif::scheduleKeywordHook() = nullptr;
            for (size_t j = 0; j < ap.step; ++j) {
                rep.count("past_state_comparisons");
                if (sdump::dump(sched[j]) != before[j])
                    rep.violation("state-before-action-step-changed", "state " + std::to_string(j) + " < " + std::to_string(ap.step) + " changed by applyAction", base + "\n" + trace + sdump::firstDiff(before[j], sdump::dump(sched[j])));
            }
            if (dumpState(sched[ap.step], true) != stepBefore) changedSomething = true;
            std::string txt;
            for (auto& b : AM.body) txt += b.render(&ap.wells);
            inlineAt[ap.step].push_back(txt);
        }
        if (!pastViolation.empty()) rep.violation(pastViolation[0], pastViolation[1], base + "\n" + trace);
        if (sched.size() != nsteps + 1) { rep.violation("schedule-size-changed", "number of report steps changed by applyAction", base + "\n" + trace); return; }

        for (auto& ap : apps) for (auto& bk : m.actions[ap.actionIdx].body) if (bk.name == "WELPI") {
            for (auto& ap2 : apps) for (auto& b2 : m.actions[ap2.actionIdx].body) rep.cover("body_keyword", b2.name + (b2.perWell ? "(?)" : ""));
            rep.count("applications_with_WELPI_checked_for_the_past_only"); rep.count("applications", (long)apps.size()); rep.count("hook_events", hookEvents);
            rep.case_done(vh::fnv(base + trace), changedSomething);
            return;
        }
        // the inlined deck
        std::string inl = stat + "SCHEDULE\n";
        for (size_t s = 0; s < nsteps; ++s) {
            for (auto& k : m.steps[s].kws) inl += k.text;
            for (auto& t : inlineAt[s]) inl += t;
            inl += m.steps[s].timeKw;
        }
        Built I;
        try { I = build(parser, inl, python); }
        catch (const std::exception& e) { rep.count("inlined_refused"); rep.cover("inlined_refused_why", errClass(e.what())); if (args.replaying) fprintf(stderr, "INLINED REFUSED: %s\n%s\n", e.what(), inl.c_str()); return; }
        std::set<size_t> appSteps;
        for (auto& ap : apps) appSteps.insert(ap.step);
        for (size_t k = 0; k < sched.size(); ++k) {
            rep.count("state_comparisons");
            bool mask = appSteps.count(k) > 0;
            std::string a = dumpState(sched[k], mask), b = dumpState((*I.sched)[k], mask);
            if (a != b) {
                std::string kws;
                for (auto& ap : apps) for (auto& bk : m.actions[ap.actionIdx].body) kws += bk.name + " ";
                // key by relation of k to the application steps
                std::string rel = mask ? "at-action-step" : (k < *appSteps.begin() ? "before-action-step" : "after-action-step");
                rep.violation("applied-differs-from-inlined:" + rel, "state " + std::to_string(k) + " after applyAction differs from the inlined schedule (body keywords: " + kws + ")",
                              "--- base deck ---\n" + base + "\n--- applications ---\n" + trace + "--- inlined deck (SCHEDULE) ---\n" + inl.substr(inl.find("SCHEDULE")) + "\n--- difference (A applied, B inlined) ---\n" + sdump::firstDiff(a, b));
                break;
            }
        }
        for (auto& ap : apps) for (auto& bk : m.actions[ap.actionIdx].body) rep.cover("body_keyword", bk.name + (bk.perWell ? "(?)" : ""));
        rep.cover("applications_in_sequence", std::to_string(apps.size()));
        for (auto& km : kwModes) rep.cover("hook_keyword_mode", km);
        rep.count("hook_events", hookEvents);
        rep.count("applications", (long)apps.size());
        rep.case_done(vh::fnv(base + trace), changedSomething);
        if (idx < 1) rep.sample(base.substr(base.find("SCHEDULE")) + "\n" + trace);
    });
    rep.finish();
    return 0;
}
