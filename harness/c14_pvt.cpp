// C14 — black-oil PVT functions honour the input tables and are self-consistent.
//
// Monitor: a random, physically ordered set of PVTO / PVTG / PVDO / PVDG / PVTW / PVCDO tables (1..3 PVT
// regions, METRIC / FIELD / LAB) is written as deck text, read by the real parser and handed to the
// concrete PVT classes through initFromState(eclState, schedule).  The oracle is the generated table
// itself (converted to SI with conversion factors defined here), the closed forms of PVTW / PVCDO and
// finite differences of the returned functions.  Every function is called with `double` and with
// Opm::DenseAd::Evaluation arguments, for every region index.
//
// The Oil/Gas/Water PVT multiplexers are driven on a second deck that holds exactly one oil and one gas keyword
// (their dispatch depends on which tables are present): approach, region count and node values.
// co2tables.inc / h2tables.inc are empty in this sandbox (DESIGN.md section 7), so the four CO2/H2 table-traits
// objects the multiplexers pull in are defined here as weak, zero-filled symbols solely to make them link; no
// value is ever read from them (the generated decks never select a CO2/H2 approach).
#include <config.h>

#include <opm/input/eclipse/Parser/Parser.hpp>
#include <opm/input/eclipse/Deck/Deck.hpp>
#include <opm/input/eclipse/EclipseState/EclipseState.hpp>
#include <opm/input/eclipse/Schedule/Schedule.hpp>
#include <opm/input/eclipse/Python/Python.hpp>

#include <opm/material/fluidsystems/blackoilpvt/LiveOilPvt.hpp>
#include <opm/material/fluidsystems/blackoilpvt/WetGasPvt.hpp>
#include <opm/material/fluidsystems/blackoilpvt/DryGasPvt.hpp>
#include <opm/material/fluidsystems/blackoilpvt/DeadOilPvt.hpp>
#include <opm/material/fluidsystems/blackoilpvt/ConstantCompressibilityWaterPvt.hpp>
#include <opm/material/fluidsystems/blackoilpvt/ConstantCompressibilityOilPvt.hpp>

#include <opm/material/fluidsystems/blackoilpvt/OilPvtMultiplexer.hpp>
#include <opm/material/fluidsystems/blackoilpvt/GasPvtMultiplexer.hpp>
#include <opm/material/fluidsystems/blackoilpvt/WaterPvtMultiplexer.hpp>
#include <opm/material/components/CO2Tables.hpp>
#include <opm/material/components/H2.hpp>

#include <opm/material/densead/Evaluation.hpp>
#include <opm/material/densead/Math.hpp>

#include "common/vh.hpp"

#include <array>
#include <memory>
#include <type_traits>

using vh::Rng;

// link-only stand-ins for the emptied co2tables.inc / h2tables.inc (weak: real definitions win if they exist)
#define C14_TABLE_STUB(T)                                        \
    __attribute__((weak)) const char* T::name = "c14-link-stub"; \
    __attribute__((weak)) const double T::xMin = 0.0;            \
    __attribute__((weak)) const double T::xMax = 1.0;            \
    __attribute__((weak)) const double T::yMin = 0.0;            \
    __attribute__((weak)) const double T::yMax = 1.0;            \
    __attribute__((weak)) const double T::vals[200][500] = {};
namespace Opm {
C14_TABLE_STUB(co2TabulatedDensityTraits)
C14_TABLE_STUB(co2TabulatedEnthalpyTraits)
C14_TABLE_STUB(H2TabulatedDensityTraits)
C14_TABLE_STUB(H2TabulatedEnthalpyTraits)
}

// ---------------------------------------------------------------------------------------------
// unit systems: factors deck unit -> SI, written down here independently of opm/input/eclipse/Units
// ---------------------------------------------------------------------------------------------
struct Units {
    const char* name;
    double p;      // pressure
    double rs;     // surface gas volume per surface oil volume   (PVTO RS)
    double rv;     // surface oil volume per surface gas volume   (PVTG RV; also BG in PVTG/PVDG: rb/Mscf)
    double visc;   // cP
    double dens;   // density
};
static const double STB = 0.158987294928;   // 42 US gallons of 231 in^3, m^3
static const double MSCF = 28.316846592;    // 1000 ft^3, m^3
static const double PSI = 6894.757293168361;// 0.45359237 kg * 9.80665 m/s^2 / (0.0254 m)^2
static const Units UNITS[3] = {
    {"METRIC", 1.0e5, 1.0, 1.0, 1.0e-3, 1.0},
    {"FIELD", PSI, MSCF / STB, STB / MSCF, 1.0e-3, 0.45359237 / 0.028316846592},
    {"LAB", 101325.0, 1.0, 1.0, 1.0e-3, 1000.0},
};

// a number as it appears in the deck: 7 significant digits; the table value IS the printed number
static double num(double v) {
    char b[64]; snprintf(b, sizeof b, "%.7g", v);
    return strtod(b, nullptr);
}
static std::string txt(double v) {
    char b[64]; snprintf(b, sizeof b, "%.7g", v);
    return b;
}

// ---------------------------------------------------------------------------------------------
// generated tables (all numbers in deck units)
// ---------------------------------------------------------------------------------------------
struct Row { double y, B, mu; };                    // PVTO: y = p;  PVTG: y = Rv
struct Branch { double x; std::vector<Row> rows; }; // PVTO: x = Rs; PVTG: x = pg.  rows[0] is the saturated state
struct PvtxTab { std::vector<Branch> br; bool defaulted = false; bool strictlyIncreasing = true; bool dryFirst = false; };
struct PvdTab { std::vector<Row> rows; };           // y = p
struct CcTab { double pref, bref, c, mu, cv; bool defaulted = false; };

struct Case {
    int unit = 0, nreg = 1;
    std::vector<PvtxTab> pvto, pvtg;
    std::vector<PvdTab> pvdo, pvdg;
    std::vector<CcTab> pvtw, pvcdo;
    std::vector<std::array<double, 3>> density;
    std::string deck;      // all six keywords: drives the concrete classes
    int muxOil = 0;        // 0 PVTO, 1 PVDO, 2 PVCDO
    int muxGas = 0;        // 0 PVTG, 1 PVDG
    std::string muxDeck;   // PVTW + one oil keyword + one gas keyword: drives the multiplexers
};

static int undersatCount(Rng& rng, bool last) {
    // 0..4 undersaturated rows; a one-row branch forces the master-table extension
    int n = rng.chance(0.35) ? 0 : (int)rng.range(1, 4);
    if (last && n == 0) n = (int)rng.range(1, 4);
    return n;
}

static PvtxTab genPvto(Rng& rng, const Units& u) {
    PvtxTab t;
    int nsat = (int)rng.range(2, 8);
    double rs = rng.chance(0.3) ? 0.0 : rng.uniform(0.5, 30.0);   // sm3/sm3
    double p = rng.uniform(5.0, 80.0);                            // bar
    double B = rng.uniform(1.01, 1.15), mu = rng.uniform(0.3, 5.0);
    for (int i = 0; i < nsat; ++i) {
        Branch b;
        b.x = num(rs * 1.0 / u.rs);
        b.rows.push_back({num(p * 1e5 / u.p), num(B), num(mu)});
        int nu = undersatCount(rng, i == nsat - 1);
        double pu = p, Bu = B, muu = mu;
        for (int k = 0; k < nu; ++k) {
            pu += rng.uniform(10.0, 150.0);
            Bu *= rng.uniform(0.95, 0.999);
            muu *= rng.chance(0.1) ? 1.0 : rng.uniform(1.005, 1.25);
            b.rows.push_back({num(pu * 1e5 / u.p), num(Bu), num(muu)});
        }
        t.br.push_back(b);
        rs += rng.uniform(3.0, 60.0);
        p += rng.uniform(5.0, 100.0);
        B += rng.uniform(0.01, 0.25);
        mu *= rng.uniform(0.6, 0.99);
    }
    return t;
}

static PvtxTab genPvtg(Rng& rng, const Units& u) {
    PvtxTab t;
    int nsat = (int)rng.range(2, 8);
    const bool plateaus = rng.chance(0.1);      // saturated Rv not strictly increasing (constant stretches)
    double p = rng.uniform(10.0, 80.0);
    double rv = rng.uniform(1e-5, 1e-4);        // sm3/sm3
    // a gas that is dry at the lowest pressure node: saturated Rv = 0 there (the guide of the interpolation starts at zero)
    const bool dryFirstNode = nsat >= 3 && rng.chance(0.12);
    if (dryFirstNode) { rv = 0.0; t.dryFirst = true; }
    double mu = rng.uniform(0.01, 0.02);
    for (int i = 0; i < nsat; ++i) {
        Branch b;
        b.x = num(p * 1e5 / u.p);
        double B = rng.uniform(0.8, 1.2) / p;   // rm3/sm3
        b.rows.push_back({num(rv / u.rv), num(B / u.rv), num(mu)});
        int nu = (dryFirstNode && i == 0) ? 0 : undersatCount(rng, i == nsat - 1);
        double rvu = rv, Bu = B, muu = mu;
        for (int k = 0; k < nu; ++k) {
            rvu *= rng.uniform(0.3, 0.9);
            if (k == nu - 1 && rng.chance(0.5)) rvu = 0.0;
            Bu *= rng.uniform(0.98, 1.03);
            muu *= rng.uniform(0.85, 1.0);
            b.rows.push_back({num(rvu / u.rv), num(Bu / u.rv), num(muu)});
        }
        t.br.push_back(b);
        p += rng.uniform(5.0, 100.0);
        if (plateaus && rng.chance(0.5) && !(dryFirstNode && i == 0)) t.strictlyIncreasing = false;    // rv unchanged (a second dry node would need undersaturated rows below Rv = 0)
        else rv += rng.uniform(1e-5, 2e-4);
        mu *= rng.uniform(1.0, 1.3);
    }
    return t;
}

static PvdTab genPvdo(Rng& rng, const Units& u) {
    PvdTab t;
    int n = (int)rng.range(2, 8);
    double p = rng.uniform(5.0, 80.0), B = rng.uniform(1.05, 1.6), mu = rng.uniform(0.3, 5.0);
    for (int i = 0; i < n; ++i) {
        t.rows.push_back({num(p * 1e5 / u.p), num(B), num(mu)});
        p += rng.uniform(5.0, 150.0);
        B *= rng.uniform(0.95, 0.999);
        mu *= rng.chance(0.15) ? 1.0 : rng.uniform(1.005, 1.2);
    }
    return t;
}

static PvdTab genPvdg(Rng& rng, const Units& u) {
    PvdTab t;
    int n = (int)rng.range(2, 8);
    double p = rng.uniform(5.0, 80.0), B = rng.uniform(0.8, 1.2) / p, mu = rng.uniform(0.01, 0.02);
    for (int i = 0; i < n; ++i) {
        t.rows.push_back({num(p * 1e5 / u.p), num(B / u.rv), num(mu)});
        double pn = p + rng.uniform(5.0, 150.0);
        B *= (p / pn) * rng.uniform(0.9, 0.999);
        p = pn;
        mu *= rng.chance(0.15) ? 1.0 : rng.uniform(1.005, 1.3);
    }
    return t;
}

static CcTab genCc(Rng& rng, const Units& u, bool oil) {
    CcTab t;
    t.pref = num(rng.uniform(50.0, 400.0) * 1e5 / u.p);
    t.bref = num(oil ? rng.uniform(1.0, 1.6) : rng.uniform(0.98, 1.08));
    double c = oil ? rng.loguniform(5e-5, 3e-4) : rng.loguniform(1e-5, 1e-4);       // 1/bar
    double cv = rng.chance(0.3) ? 0.0 : rng.loguniform(1e-6, oil ? 1e-3 : 2e-4);    // 1/bar
    t.c = num(c / 1e5 * u.p);
    t.cv = num(cv / 1e5 * u.p);
    t.mu = num(oil ? rng.uniform(0.5, 10.0) : rng.uniform(0.2, 1.0));
    return t;
}

static void writePvtx(std::ostringstream& o, const char* kw, const std::vector<PvtxTab>& tabs) {
    o << kw << "\n";
    for (const auto& t : tabs) {
        if (!t.defaulted)
            for (const auto& b : t.br) {
                o << " " << txt(b.x);
                for (size_t k = 0; k < b.rows.size(); ++k)
                    o << (k ? "\n        " : "  ") << txt(b.rows[k].y) << " " << txt(b.rows[k].B) << " " << txt(b.rows[k].mu);
                o << " /\n";
            }
        o << "/\n";
    }
}
static void writePvd(std::ostringstream& o, const char* kw, const std::vector<PvdTab>& tabs) {
    o << kw << "\n";
    for (const auto& t : tabs) {
        for (size_t k = 0; k < t.rows.size(); ++k)
            o << " " << txt(t.rows[k].y) << " " << txt(t.rows[k].B) << " " << txt(t.rows[k].mu) << (k + 1 < t.rows.size() ? "\n" : " /\n");
    }
}
static void writeCc(std::ostringstream& o, const char* kw, const std::vector<CcTab>& tabs) {
    o << kw << "\n";
    for (const auto& t : tabs) {
        if (t.defaulted) { o << " /\n"; continue; }     // all-defaulted record: the table of the previous region
        o << " " << txt(t.pref) << " " << txt(t.bref) << " " << txt(t.c) << " " << txt(t.mu) << " " << txt(t.cv) << " /\n";
    }
}

static Case genCase(Rng& rng, long idx) {
    Case cs;
    cs.unit = (int)(idx % 3);
    cs.nreg = (int)rng.range(1, 4);
    const Units& u = UNITS[cs.unit];
    for (int r = 0; r < cs.nreg; ++r) {
        cs.pvto.push_back(genPvto(rng, u));
        cs.pvtg.push_back(genPvtg(rng, u));
        // a region whose PVTO/PVTG table is left empty takes over the table of the previous region
        if (r > 0 && rng.chance(0.12)) { cs.pvto[r] = cs.pvto[r - 1]; cs.pvto[r].defaulted = true; }
        if (r > 0 && rng.chance(0.12)) { cs.pvtg[r] = cs.pvtg[r - 1]; cs.pvtg[r].defaulted = true; }
        cs.pvdo.push_back(genPvdo(rng, u));
        cs.pvdg.push_back(genPvdg(rng, u));
        cs.pvtw.push_back(genCc(rng, u, false));
        // PVTW (like DENSITY) accepts an all-defaulted record: the region takes the record of the PREVIOUS region
        if (r > 0 && rng.chance(0.25)) { cs.pvtw[r] = cs.pvtw[r - 1]; cs.pvtw[r].defaulted = true; }
        cs.pvcdo.push_back(genCc(rng, u, true));
        cs.density.push_back({num(rng.uniform(700, 900) / u.dens), num(rng.uniform(990, 1100) / u.dens), num(rng.uniform(0.7, 1.3) / u.dens)});
        if (r > 0 && rng.chance(0.25)) cs.density[r] = {-1, -1, -1};     // written as an all-defaulted record
    }
    cs.muxOil = (int)rng.below(3);
    cs.muxGas = (int)rng.below(2);
    for (int which = 0; which < 2; ++which) {
        const bool mux = which == 1;
        std::ostringstream o;
        o << "RUNSPEC\nDIMENS\n 1 1 1 /\nOIL\nGAS\nWATER\nDISGAS\nVAPOIL\n" << u.name << "\nTABDIMS\n 1 " << cs.nreg
          << " 20 30 1 30 /\nGRID\nDX\n 1 /\nDY\n 1 /\nDZ\n 1 /\nTOPS\n 1 /\nPORO\n 0.2 /\nPERMX\n 1 /\nPROPS\nDENSITY\n";
        for (const auto& d : cs.density) { if (d[0] < 0) o << " /\n"; else o << " " << txt(d[0]) << " " << txt(d[1]) << " " << txt(d[2]) << " /\n"; }
        writeCc(o, "PVTW", cs.pvtw);
        if (!mux || cs.muxOil == 2) writeCc(o, "PVCDO", cs.pvcdo);
        if (!mux || cs.muxOil == 1) writePvd(o, "PVDO", cs.pvdo);
        if (!mux || cs.muxGas == 1) writePvd(o, "PVDG", cs.pvdg);
        if (!mux || cs.muxOil == 0) writePvtx(o, "PVTO", cs.pvto);
        if (!mux || cs.muxGas == 0) writePvtx(o, "PVTG", cs.pvtg);
        o << "SOLUTION\nSCHEDULE\n";
        (mux ? cs.muxDeck : cs.deck) = o.str();
    }
    return cs;
}

// ---------------------------------------------------------------------------------------------
// checking machinery
// ---------------------------------------------------------------------------------------------
using E3 = Opm::DenseAd::Evaluation<double, 3>;   // slot 0: first argument, slot 1: second argument, slot 2: temperature
static const double TEMP = 311.15;
static double tempOf(const double&) { return TEMP; }
static E3 tempOf(const E3&) { return E3::createVariable(TEMP, 2); }
template <class T> static T zeroOf(const T&) { return T(0.0); }

struct Val { double v = 0, d0 = 0, d1 = 0; };

struct Checker {
    vh::Reporter& rep;
    const Case& cs;
    std::string kw;
    int region = 0;
    long comparisons = 0;
    const std::string* deckInUse = nullptr;

    std::string where() const { return kw + " region " + std::to_string(region + 1) + " (" + UNITS[cs.unit].name + ")"; }
    void fail(const std::string& key, const std::string& what) {
        rep.violation(key, where() + ": " + what, what + "\n" + where() + "\n" + (deckInUse ? *deckInUse : cs.deck));
    }
    // got == ref within rtol (relative)
    // `floor_`: magnitude below which the difference is taken as absolute (for tabulated zeros)
    void close(const std::string& key, const std::string& group, const std::string& what, double got, double ref, double rtol, double floor_ = 0.0) {
        ++comparisons;
        rep.cover("comparisons", group);
        double e = vh::reldiff(got, ref, floor_);
        if (std::isfinite(e)) rep.maxof("max_rel_err:" + group, e);
        if (!(e <= rtol)) {
            std::ostringstream o; o.precision(17);
            o << what << ": got " << got << ", expected " << ref << " (rel. diff " << e << ", tolerance " << rtol << ")";
            fail(key, o.str());
        }
    }
    // v within [min(a,b), max(a,b)]; slack covers the rounding of the interpolation itself
    void within(const std::string& key, const std::string& group, const std::string& what, double v, double a, double b) {
        ++comparisons;
        rep.cover("comparisons", group);
        double lo = std::min(a, b), hi = std::max(a, b), slack = 1e-12 * std::max(std::fabs(a), std::fabs(b));
        if (!(v >= lo - slack && v <= hi + slack)) {
            std::ostringstream o; o.precision(17);
            o << what << ": value " << v << " outside the bracketing node values [" << lo << ", " << hi << "]";
            fail(key, o.str());
        }
    }

    // Evaluate f(a, b) with double and with Evaluation arguments.  f is a generic lambda.
    template <class F> Val both(const char* fn, F&& f, double a, double b) {
        Val r;
        r.v = f(a, b);
        E3 ea = E3::createVariable(a, 0), eb = E3::createVariable(b, 1);
        E3 e = f(ea, eb);
        r.d0 = e.derivative(0); r.d1 = e.derivative(1);
        // same algorithm, same inputs: the value part may differ by rounding only (x/s is computed as x*(1/s)).
        // Rounding is relative to the terms the value is built from, not to the value: where a table is
        // extrapolated towards a zero crossing (or a viscosity towards a pole) |value| << |terms|; the size of the
        // terms is taken from the sensitivities |df/da * a| + |df/db * b|.
        ++comparisons;
        rep.cover("comparisons", "evaluation-value-vs-double");
        const double mag = std::fabs(r.v) + std::fabs(r.d0 * a) + std::fabs(r.d1 * b);
        const double ed = std::fabs(e.value() - r.v) / (mag > 0 ? mag : 1.0);
        if (std::isfinite(ed)) rep.maxof("max_rel_err:evaluation-value-vs-double", ed);
        if (!(ed <= 1e-11)) {
            std::ostringstream o; o.precision(17);
            o << fn << "(" << a << ", " << b << "): Evaluation argument gives value " << e.value() << ", double argument gives " << r.v;
            fail("evaluation-vs-double:" + kw + ":" + fn, o.str());
        }
        // the functions ignore the temperature: the slope in that direction is exactly zero
        if (e.derivative(2) != 0.0) {
            std::ostringstream o; o.precision(17);
            o << fn << "(" << a << ", " << b << "): derivative with respect to the (unused) temperature is " << e.derivative(2);
            fail("ad-derivative:" + kw + ":" + fn + ":temperature", o.str());
        }
        return r;
    }

    // AD derivative with respect to one argument against finite differences of the returned function.
    // g: double -> double is the function restricted to that argument, `xs` the magnitude of that argument
    // (step h = 4e-6 xs).  From g(x-2h) .. g(x+2h):
    //   dl, dr  second-order one-sided differences to the left / to the right of x,
    //   dc      fourth-order central difference.
    // The point is "away from kinks" when dl and dr agree: a kink at x itself (invisible to central differences,
    // which return the mean of both slopes whatever the step) or anywhere inside [x-2h, x+2h] makes them differ
    // by the jump of the slope.  Accepting |dl-dr| <= 2e-6 bounds the kink-induced part of |AD - dc| by 1e-6.
    // `mag`: size of the terms the function value is built from (see both()); the rounding noise of g is a few
    // hundred times 1e-16 mag where neighbouring branches are extrapolated, which the floor must cover.
    template <class G> void slope(const std::string& fn, const char* arg, G&& g, double x, double xs, double ad, double mag) {
        const double h = 4e-6 * xs;
        const double gm2 = g(x - 2 * h), gm1 = g(x - h), g0 = g(x), gp1 = g(x + h), gp2 = g(x + 2 * h);
        const double dl = (3 * g0 - 4 * gm1 + gm2) / (2 * h);
        const double dr = (-3 * g0 + 4 * gp1 - gp2) / (2 * h);
        const double dc = (8 * (gp1 - gm1) - (gp2 - gm2)) / (12 * h);
        // rounding of the quotients is ~ 4e-16 mag / h = 1e-10 mag / xs for a function evaluated to full precision;
        // observed noise is up to 50 times that (2D interpolation between extrapolated branches): floor at 200 times
        const double floor_ = 2e-8 * mag / xs;
        if (!std::isfinite(ad)) {
            std::ostringstream o; o.precision(17);
            o << fn << ": derivative with respect to " << arg << " at " << x << " is not finite";
            fail("ad-derivative:" + kw + ":" + fn + ":nonfinite", o.str());
            return;
        }
        // (dc must agree with both as well: where a linearly extrapolated table value is the small difference of two
        // large terms, the rounding noise of g is far above 1e-16 |g| and the three quotients scatter)
        const double spread = std::max(std::fabs(dl - dr), std::max(std::fabs(dc - dl), std::fabs(dc - dr)));
        if (!std::isfinite(dl) || !std::isfinite(dr) || !std::isfinite(dc) ||
            spread > 2e-6 * std::max(std::fabs(dl), std::fabs(dr)) + floor_) {
            rep.count("ad_points_skipped_near_kink");
            return;
        }
        ++comparisons;
        rep.cover("comparisons", "ad-derivative");
        rep.count("ad_derivative_comparisons");
        const double big = std::max(std::fabs(ad), std::fabs(dc));
        const double err = std::fabs(ad - dc), tol = 1e-5 * big + floor_;
        if (big > 1e5 * floor_) rep.maxof("max_rel_err:ad-derivative", err / big);   // (reported for derivatives well above the rounding floor)
        rep.maxof("max_ad_err_over_tolerance", err / tol);
        if (dc != 0.0) rep.count("ad_derivative_nonzero");
        if (!(err <= tol)) {
            std::ostringstream o; o.precision(17);
            o << fn << ": derivative with respect to " << arg << " at " << arg << " = " << x << " is " << ad
              << ", finite difference of the returned function is " << dc << " (step " << h << ", one-sided " << dl << " / " << dr << ")";
            fail("ad-derivative:" + kw + ":" + fn, o.str());
        }
    }
    // value with both argument kinds + both partial derivatives against finite differences
    // (sa, sb: magnitudes of the two arguments, see slope(); sb == 0: the second argument is not differentiated)
    template <class F> Val full(const char* fn, F&& f, double a, double sa, double b, double sb) {
        Val r = both(fn, f, a, b);
        const double mag = std::fabs(r.v) + std::fabs(r.d0 * a) + std::fabs(r.d1 * b);
        slope(fn, "argument 1", [&](double x) { return (double)f(x, b); }, a, sa, r.d0, mag);
        if (sb > 0) slope(fn, "argument 2", [&](double x) { return (double)f(a, x); }, b, sb, r.d1, mag);
        return r;
    }
};

// random point strictly inside (a, b)
static double inside(Rng& rng, double a, double b) { double t = rng.uniform(0.05, 0.95); return a * (1 - t) + b * t; }

// ---------------------------------------------------------------------------------------------
// PVTO / PVTG (live oil, wet gas).  The two classes differ in the role of the axes:
//   PVTO: x = Rs, y = p, saturated curve as functions of p: Rs(p), B(p), mu(p);  2D functions f(p, Rs)
//   PVTG: x = p,  y = Rv, saturated curve as functions of p: Rv(p), B(p), mu(p); 2D functions f(p, Rv)
// ---------------------------------------------------------------------------------------------
struct SatNode { double p, R, B, mu; };   // SI

template <class Pvt, class InvB, class Mu, class SatInvB, class SatMu, class SatR, class PSat>
static void checkLive(Checker& c, Rng& rng, const Pvt&, const PvtxTab& t, bool oil,
                      InvB&& invB, Mu&& mu, SatInvB&& satInvB, SatMu&& satMu, SatR&& satR, PSat&& pSat) {
    const Units& u = UNITS[c.cs.unit];
    const std::string K = c.kw;
    const char* Bn = oil ? "Bo" : "Bg";
    const char* Mn = oil ? "muo" : "mug";
    const char* Rn = oil ? "Rs" : "Rv";
    const double bUnit = oil ? 1.0 : u.rv;
    const double rUnit = oil ? u.rs : u.rv;
    // SI coordinates of a table row: (p, R)
    auto pOf = [&](const Branch& b, const Row& r) { return (oil ? r.y : b.x) * u.p; };
    auto ROf = [&](const Branch& b, const Row& r) { return (oil ? b.x : r.y) * rUnit; };

    std::vector<SatNode> sat;
    for (const auto& b : t.br) sat.push_back({pOf(b, b.rows[0]), ROf(b, b.rows[0]), b.rows[0].B * bUnit, b.rows[0].mu * u.visc});
    const size_t n = sat.size();
    const double pRange = sat[n - 1].p - sat[0].p;
    double Rmin = 1e300, Rmax = -1e300, pMaxAll = 0;
    for (const auto& b : t.br) for (const auto& r : b.rows) {
        Rmin = std::min(Rmin, ROf(b, r)); Rmax = std::max(Rmax, ROf(b, r)); pMaxAll = std::max(pMaxAll, pOf(b, r));
    }
    const double RRange = Rmax - Rmin;
    const double pSpan = std::max(pRange, pMaxAll - sat[0].p);

    auto fInvB = [&](const auto& p, const auto& R) { return invB(p, R); };
    auto fMu = [&](const auto& p, const auto& R) { return mu(p, R); };
    auto fSatInvB = [&](const auto& p, const auto&) { return satInvB(p); };
    auto fSatMu = [&](const auto& p, const auto&) { return satMu(p); };
    auto fSatR = [&](const auto& p, const auto&) { return satR(p); };
    auto fPSat = [&](const auto& R, const auto&) { return pSat(R); };

    // ---- node values -------------------------------------------------------------------------
    for (size_t i = 0; i < t.br.size(); ++i) {
        const Branch& b = t.br[i];
        c.rep.cover(K + "_rows_per_branch", std::to_string(b.rows.size()));
        for (size_t k = 0; k < b.rows.size(); ++k) {
            const double p = pOf(b, b.rows[k]), R = ROf(b, b.rows[k]);
            std::ostringstream w; w.precision(12);
            w << "branch " << i + 1 << " row " << k + 1 << " (p=" << p << " Pa, " << Rn << "=" << R << ")";
            Val vb = c.both("inverseFormationVolumeFactor", fInvB, p, R);
            c.close("node-value:" + K + ":" + Bn, "node-value", std::string(Bn) + " at " + w.str(), 1.0 / vb.v, b.rows[k].B * bUnit, 1e-7);
            Val vm = c.both("viscosity", fMu, p, R);
            c.close("node-value:" + K + ":" + Mn, "node-value", std::string(Mn) + " at " + w.str(), vm.v, b.rows[k].mu * u.visc, 1e-7);
            if (k == 0) {
                // the undersaturated branch starts on the saturated curve
                Val sb = c.both("saturatedInverseFormationVolumeFactor", fSatInvB, p, 0.0);
                Val sm = c.both("saturatedViscosity", fSatMu, p, 0.0);
                Val sr = c.both(oil ? "saturatedGasDissolutionFactor" : "saturatedOilVaporizationFactor", fSatR, p, 0.0);
                c.close("node-value:" + K + ":" + Bn + "-saturated", "node-value", std::string("saturated ") + Bn + " at " + w.str(), 1.0 / sb.v, sat[i].B, 1e-7);
                c.close("node-value:" + K + ":" + Mn + "-saturated", "node-value", std::string("saturated ") + Mn + " at " + w.str(), sm.v, sat[i].mu, 1e-7);
                c.close("node-value:" + K + ":" + Rn, "node-value", std::string("saturated ") + Rn + " at " + w.str(), sr.v, sat[i].R, 1e-7, Rmax);   // a tabulated Rs = 0 is compared on the scale of the table
                c.close("continuity:" + K + ":" + Bn + ":node", "continuity-node", std::string(Bn) + " of the undersaturated branch vs saturated curve at " + w.str(), 1.0 / vb.v, 1.0 / sb.v, 1e-9);
                c.close("continuity:" + K + ":" + Mn + ":node", "continuity-node", std::string(Mn) + " of the undersaturated branch vs saturated curve at " + w.str(), vm.v, sm.v, 1e-9);
            }
            // between this row and the next one of the same branch
            if (k + 1 < b.rows.size()) {
                const double p2 = pOf(b, b.rows[k + 1]), R2 = ROf(b, b.rows[k + 1]);
                const double s = rng.uniform(0.02, 0.98);
                const double pm = p * (1 - s) + p2 * s, Rm = R * (1 - s) + R2 * s;
                Val mb = c.full("inverseFormationVolumeFactor", fInvB, pm, pm, Rm, 0.0);
                Val mm = c.full("viscosity", fMu, pm, pm, Rm, 0.0);
                std::ostringstream w2; w2.precision(12);
                w2 << "branch " << i + 1 << " between rows " << k + 1 << " and " << k + 2 << " (p=" << pm << " Pa, " << Rn << "=" << Rm << ")";
                c.within("bracket:" + K + ":" + Bn, "bracket", std::string(Bn) + " on " + w2.str(), 1.0 / mb.v, b.rows[k].B * bUnit, b.rows[k + 1].B * bUnit);
                c.within("bracket:" + K + ":" + Mn, "bracket", std::string(Mn) + " on " + w2.str(), mm.v, b.rows[k].mu * u.visc, b.rows[k + 1].mu * u.visc);
            }
        }
        if (b.rows.size() == 1 && !(!oil && sat[i].R <= 0.0)) {
            // (a dry gas node, saturated Rv = 0, has no undersaturated side: a point "below" it would have a negative Rv, which is
            // not an input of the functions; thorough tier seed 2 case 619261 compared derivatives there)
            // this branch is extended by the model from a master branch: no tabulated numbers beyond the saturated
            // node, but the functions must be finite there and their derivatives consistent
            size_t m = i + 1;
            while (m < t.br.size() && t.br[m].rows.size() < 2) ++m;
            c.rep.cover(K + "_master_branch_distance", std::to_string(m - i));
            const Branch& mb = t.br[m];
            const double span = oil ? (mb.rows.back().y - mb.rows[0].y) * u.p : (mb.rows[0].y - mb.rows.back().y) * rUnit;
            double p = sat[i].p, R = sat[i].R;
            if (oil) p += rng.uniform(0.05, 0.95) * span; else R -= rng.uniform(0.05, 0.95) * span;
            Val eb = c.full("inverseFormationVolumeFactor", fInvB, p, p, R, RRange);
            Val em = c.full("viscosity", fMu, p, p, R, RRange);
            c.rep.count("extended_branch_points");
            if (!std::isfinite(eb.v) || !std::isfinite(em.v)) c.fail("extension-nonfinite:" + K, "non-finite value on an extended branch");
            // PVTO: a branch that has its saturated row only takes its undersaturated behaviour from the NEXT branch with
            // undersaturated rows, keeping that branch's compressibility and viscosibility: at p = pSat + (pM_k - pM_0) the values are
            // Bo = BoSat * BoM_k / BoM_0 and mu = muSat * muM_k / muM_0 (the keyword's documented rule)
            if (oil) for (size_t k = 1; k < mb.rows.size(); ++k) {
                const double pk = sat[i].p + (mb.rows[k].y - mb.rows[0].y) * u.p;
                const double wantB = sat[i].B * mb.rows[k].B / mb.rows[0].B, wantMu = sat[i].mu * mb.rows[k].mu / mb.rows[0].mu;
                Val xb = c.both("inverseFormationVolumeFactor", fInvB, pk, sat[i].R);
                Val xm = c.both("viscosity", fMu, pk, sat[i].R);
                std::ostringstream w3; w3.precision(12);
                w3 << "single-row branch " << i + 1 << " (" << Rn << "=" << sat[i].R << ") at p = pSat + offset of row " << k + 1 << " of branch " << m + 1 << " (p=" << pk << " Pa)";
                c.close("extension-rule:" + K + ":" + Bn, "extension-rule", std::string(Bn) + " on " + w3.str(), 1.0 / xb.v, wantB, 1e-7);
                c.close("extension-rule:" + K + ":" + Mn, "extension-rule", std::string(Mn) + " on " + w3.str(), xm.v, wantMu, 1e-7);
            }
        }
    }

    // ---- along the saturated curve -----------------------------------------------------------
    for (size_t i = 0; i + 1 < n; ++i) {
        const double pm = inside(rng, sat[i].p, sat[i + 1].p);
        std::ostringstream w; w.precision(12);
        w << "saturated curve between nodes " << i + 1 << " and " << i + 2 << " (p=" << pm << " Pa)";
        Val sb = c.full("saturatedInverseFormationVolumeFactor", fSatInvB, pm, pm, 0.0, 0.0);
        Val sm = c.full("saturatedViscosity", fSatMu, pm, pm, 0.0, 0.0);
        Val sr = c.full(oil ? "saturatedGasDissolutionFactor" : "saturatedOilVaporizationFactor", fSatR, pm, pm, 0.0, 0.0);
        c.within("bracket:" + K + ":" + Bn + "-saturated", "bracket", std::string(Bn) + " on the " + w.str(), 1.0 / sb.v, sat[i].B, sat[i + 1].B);
        c.within("bracket:" + K + ":" + Mn + "-saturated", "bracket", std::string(Mn) + " on the " + w.str(), sm.v, sat[i].mu, sat[i + 1].mu);
        c.within("bracket:" + K + ":" + Rn, "bracket", std::string(Rn) + " on the " + w.str(), sr.v, sat[i].R, sat[i + 1].R);
        // the undersaturated function evaluated ON the saturated line meets the saturated curve
        Val ub = c.both("inverseFormationVolumeFactor", fInvB, pm, sr.v);
        Val um = c.both("viscosity", fMu, pm, sr.v);
        c.close("continuity:" + K + ":" + Bn + ":between-nodes", "continuity-between-nodes",
                std::string(Bn) + "(p, " + Rn + "sat(p)) vs saturated " + Bn + "(p) on the " + w.str(), 1.0 / ub.v, 1.0 / sb.v, 1e-9);
        c.close("continuity:" + K + ":" + Mn + ":between-nodes", "continuity-between-nodes",
                std::string(Mn) + "(p, " + Rn + "sat(p)) vs saturated " + Mn + "(p) on the " + w.str(), um.v, sm.v, 1e-9);
    }

    // ---- saturation pressure inverts the saturated R(p) relation -----------------------------
    if (t.strictlyIncreasing) {
        auto invert = [&](double p, const std::string& keySuffix, const std::string& group) {
            Val sr = c.both(oil ? "saturatedGasDissolutionFactor" : "saturatedOilVaporizationFactor", fSatR, p, 0.0);
            try {
                Val ps = c.full("saturationPressure", fPSat, sr.v, RRange, 0.0, 0.0);
                std::ostringstream w; w.precision(12);
                w << "saturationPressure(" << Rn << "sat(p)) for p=" << p << " Pa, " << Rn << "sat=" << sr.v;
                // "0 Pa" is what the model's Newton iteration returns when it gives up: keyed apart from a wrong pressure
                c.close("psat-inverse:" + K + keySuffix + (ps.v == 0.0 ? ":gave-up-zero" : ""), group, w.str(), ps.v, p, 1e-6);
            } catch (const std::exception& e) {
                std::ostringstream w; w.precision(12);
                w << "saturationPressure(" << sr.v << ") threw for p=" << p << " Pa: " << std::string(e.what()).substr(0, 200);
                c.fail("psat-threw:" + K + keySuffix, w.str());
            }
        };
        for (size_t i = 0; i < n; ++i) invert(sat[i].p, "", "psat-inverse");
        for (int k = 0; k < 4; ++k) invert(rng.uniform(sat[0].p, sat[n - 1].p), "", "psat-inverse");
        // beyond the table range the returned R(p) continues linearly and stays strictly increasing
        invert(sat[n - 1].p + rng.uniform(0.02, 0.5) * pRange, ":beyond-range", "psat-inverse-beyond-range");
        {
            // below the first node only while the extrapolated R stays positive
            double p = sat[0].p * rng.uniform(0.5, 0.98);
            if ((double)satR(p) > 0.0) invert(p, ":beyond-range", "psat-inverse-beyond-range");
        }
    } else {
        c.rep.count("psat_inverse_skipped_not_strictly_increasing");
    }

    // ---- derivatives at random points inside and beyond the table ----------------------------
    // Beyond the table the functions continue linearly; a point is used only while the extrapolated 1/B and mu stay
    // within a factor 4 (10) of the tabulated range: further out 1/B crosses zero and mu has poles, the values are
    // differences of large terms and neither the model nor a difference quotient is meaningful there.
    double ibMin = 1e300, ibMax = 0, muMin = 1e300, muMax = 0;
    for (const auto& b : t.br) for (const auto& r : b.rows) {
        ibMin = std::min(ibMin, 1.0 / (r.B * bUnit)); ibMax = std::max(ibMax, 1.0 / (r.B * bUnit));
        muMin = std::min(muMin, r.mu * u.visc); muMax = std::max(muMax, r.mu * u.visc);
    }
    auto sane = [&](double ib, double m) { return ib > 0.25 * ibMin && ib < 4 * ibMax && m > 0.1 * muMin && m < 10 * muMax; };
    for (int k = 0; k < 6; ++k) {
        double p = rng.uniform(sat[0].p - 0.2 * pSpan, sat[0].p + 1.3 * pSpan);
        double R = rng.uniform(Rmin - 0.1 * RRange, Rmax + 0.3 * RRange);
        if (p < 0.5 * sat[0].p) p = sat[0].p * rng.uniform(0.5, 1.0);
        if (!sane((double)invB(p, R), (double)mu(p, R))) { c.rep.count("random_points_skipped_extrapolated_out_of_physical_range"); continue; }
        c.rep.cover("ad_point_location", (p < sat[0].p || p > pMaxAll || R < Rmin || R > Rmax) ? "beyond-table-range" : "inside-table-range");
        c.full("inverseFormationVolumeFactor", fInvB, p, p, R, RRange);
        c.full("viscosity", fMu, p, p, R, RRange);
    }
    for (int k = 0; k < 3; ++k) {
        double p = rng.uniform(sat[0].p - 0.2 * pRange, sat[n - 1].p + 0.4 * pRange);
        if (p < 0.5 * sat[0].p) p = sat[0].p * rng.uniform(0.5, 1.0);
        if (!sane((double)satInvB(p), (double)satMu(p))) { c.rep.count("random_points_skipped_extrapolated_out_of_physical_range"); continue; }
        c.full("saturatedInverseFormationVolumeFactor", fSatInvB, p, p, 0.0, 0.0);
        c.full("saturatedViscosity", fSatMu, p, p, 0.0, 0.0);
        c.full(oil ? "saturatedGasDissolutionFactor" : "saturatedOilVaporizationFactor", fSatR, p, p, 0.0, 0.0);
    }
}

// ---------------------------------------------------------------------------------------------
// PVDO / PVDG
// ---------------------------------------------------------------------------------------------
template <class InvB, class Mu, class SatInvB, class SatMu>
static void checkDead(Checker& c, Rng& rng, const PvdTab& t, bool oil, InvB&& invB, Mu&& mu, SatInvB&& satInvB, SatMu&& satMu) {
    const Units& u = UNITS[c.cs.unit];
    const std::string K = c.kw;
    const char* Bn = oil ? "Bo" : "Bg";
    const char* Mn = oil ? "muo" : "mug";
    const double bUnit = oil ? 1.0 : u.rv;
    auto fInvB = [&](const auto& p, const auto& R) { return invB(p, R); };
    auto fMu = [&](const auto& p, const auto& R) { return mu(p, R); };
    auto fSatInvB = [&](const auto& p, const auto&) { return satInvB(p); };
    auto fSatMu = [&](const auto& p, const auto&) { return satMu(p); };
    const size_t n = t.rows.size();
    const double pRange = (t.rows[n - 1].y - t.rows[0].y) * u.p;
    c.rep.cover(K + "_rows", std::to_string(n));
    const double anyR = rng.uniform(0.0, 100.0);   // dead oil / dry gas ignore the composition argument
    for (size_t k = 0; k < n; ++k) {
        const double p = t.rows[k].y * u.p;
        std::ostringstream w; w.precision(12); w << "row " << k + 1 << " (p=" << p << " Pa)";
        Val vb = c.both("inverseFormationVolumeFactor", fInvB, p, anyR);
        Val vm = c.both("viscosity", fMu, p, anyR);
        Val sb = c.both("saturatedInverseFormationVolumeFactor", fSatInvB, p, 0.0);
        Val sm = c.both("saturatedViscosity", fSatMu, p, 0.0);
        c.close("node-value:" + K + ":" + Bn, "node-value", std::string(Bn) + " at " + w.str(), 1.0 / vb.v, t.rows[k].B * bUnit, 1e-7);
        c.close("node-value:" + K + ":" + Mn, "node-value", std::string(Mn) + " at " + w.str(), vm.v, t.rows[k].mu * u.visc, 1e-7);
        c.close("node-value:" + K + ":" + Bn + "-saturated", "node-value", std::string("saturated ") + Bn + " at " + w.str(), 1.0 / sb.v, t.rows[k].B * bUnit, 1e-7);
        c.close("node-value:" + K + ":" + Mn + "-saturated", "node-value", std::string("saturated ") + Mn + " at " + w.str(), sm.v, t.rows[k].mu * u.visc, 1e-7);
        if (k + 1 < n) {
            const double pm = inside(rng, p, t.rows[k + 1].y * u.p);
            std::ostringstream w2; w2.precision(12); w2 << "between rows " << k + 1 << " and " << k + 2 << " (p=" << pm << " Pa)";
            Val mb = c.full("inverseFormationVolumeFactor", fInvB, pm, pm, anyR, 100.0);
            Val mm = c.full("viscosity", fMu, pm, pm, anyR, 100.0);
            c.within("bracket:" + K + ":" + Bn, "bracket", std::string(Bn) + " " + w2.str(), 1.0 / mb.v, t.rows[k].B * bUnit, t.rows[k + 1].B * bUnit);
            c.within("bracket:" + K + ":" + Mn, "bracket", std::string(Mn) + " " + w2.str(), mm.v, t.rows[k].mu * u.visc, t.rows[k + 1].mu * u.visc);
        }
    }
    double ibMin = 1e300, ibMax = 0, muMin = 1e300, muMax = 0;
    for (const auto& r : t.rows) {
        ibMin = std::min(ibMin, 1.0 / (r.B * bUnit)); ibMax = std::max(ibMax, 1.0 / (r.B * bUnit));
        muMin = std::min(muMin, r.mu * u.visc); muMax = std::max(muMax, r.mu * u.visc);
    }
    for (int k = 0; k < 3; ++k) {
        double p = rng.uniform(t.rows[0].y * u.p - 0.2 * pRange, t.rows[n - 1].y * u.p + 0.4 * pRange);
        if (p < 0.5 * t.rows[0].y * u.p) p = t.rows[0].y * u.p * rng.uniform(0.5, 1.0);
        // (same restriction to the physically meaningful part of the linear continuation as for the live tables)
        const double ib = satInvB(p), m = satMu(p);
        if (!(ib > 0.25 * ibMin && ib < 4 * ibMax && m > 0.1 * muMin && m < 10 * muMax)) { c.rep.count("random_points_skipped_extrapolated_out_of_physical_range"); continue; }
        c.rep.cover("ad_point_location", (p < t.rows[0].y * u.p || p > t.rows[n - 1].y * u.p) ? "beyond-table-range" : "inside-table-range");
        c.full("inverseFormationVolumeFactor", fInvB, p, p, anyR, 100.0);
        c.full("viscosity", fMu, p, p, anyR, 100.0);
        c.full("saturatedInverseFormationVolumeFactor", fSatInvB, p, p, 0.0, 0.0);
        c.full("saturatedViscosity", fSatMu, p, p, 0.0, 0.0);
    }
}

// ---------------------------------------------------------------------------------------------
// PVTW / PVCDO:  B(p) = Bref / (1 + X + X^2/2), X = C (p - pref);   (B mu)(p) = Bref muref / (1 + Y + Y^2/2), Y = (C - Cv)(p - pref)
// ---------------------------------------------------------------------------------------------
template <class InvB, class Mu, class SatInvB, class SatMu>
static void checkConstCompr(Checker& c, Rng& rng, const CcTab& t, InvB&& invB, Mu&& mu, SatInvB&& satInvB, SatMu&& satMu) {
    const Units& u = UNITS[c.cs.unit];
    const std::string K = c.kw;
    auto fInvB = [&](const auto& p, const auto& R) { return invB(p, R); };
    auto fMu = [&](const auto& p, const auto& R) { return mu(p, R); };
    auto fSatInvB = [&](const auto& p, const auto&) { return satInvB(p); };
    auto fSatMu = [&](const auto& p, const auto&) { return satMu(p); };
    const double pref = t.pref * u.p, C = t.c / u.p, Cv = t.cv / u.p, muref = t.mu * u.visc;
    const double anyR = rng.uniform(0.0, 100.0);
    for (int k = 0; k < 6; ++k) {
        // k == 0: exactly the reference pressure; then below, above and far above it
        double p = pref;
        if (k == 1 || k == 2) p = pref * rng.uniform(0.05, 0.999);
        if (k == 3 || k == 4) p = pref * rng.uniform(1.001, 2.5);
        if (k == 5) p = pref * rng.uniform(2.5, 6.0);
        const double X = C * (p - pref), Y = (C - Cv) * (p - pref);
        const double Bexp = t.bref / (1.0 + X + 0.5 * X * X);
        const double muExp = t.bref * muref / (1.0 + Y + 0.5 * Y * Y) / Bexp;
        std::ostringstream w; w.precision(12); w << (k == 0 ? "at the reference pressure" : "off the reference pressure") << " (p=" << p << " Pa, pref=" << pref << " Pa)";
        c.rep.cover(K + "_pressure", k == 0 ? "reference" : (p < pref ? "below" : "above"));
        Val vb = c.full("inverseFormationVolumeFactor", fInvB, p, p, anyR, 100.0);
        Val vm = c.full("viscosity", fMu, p, p, anyR, 100.0);
        Val sb = c.full("saturatedInverseFormationVolumeFactor", fSatInvB, p, p, 0.0, 0.0);
        Val sm = c.full("saturatedViscosity", fSatMu, p, p, 0.0, 0.0);
        c.close("closed-form:" + K + ":B", "closed-form", "B " + w.str(), 1.0 / vb.v, Bexp, 1e-7);
        c.close("closed-form:" + K + ":mu", "closed-form", "mu " + w.str(), vm.v, muExp, 1e-7);
        c.close("closed-form:" + K + ":B-saturated", "closed-form", "saturated B " + w.str(), 1.0 / sb.v, Bexp, 1e-7);
        c.close("closed-form:" + K + ":mu-saturated", "closed-form", "saturated mu " + w.str(), sm.v, muExp, 1e-7);
    }
}

// ---------------------------------------------------------------------------------------------
// multiplexers: the table nodes (closed forms for PVTW / PVCDO) seen through the dispatching classes
// ---------------------------------------------------------------------------------------------
struct MuxNode { double p, R, B, mu; };   // SI

static std::vector<MuxNode> nodesOf(const PvtxTab& t, bool oil, const Units& u) {
    std::vector<MuxNode> v;
    for (const auto& b : t.br) for (const auto& r : b.rows)
        v.push_back(oil ? MuxNode{r.y * u.p, b.x * u.rs, r.B, r.mu * u.visc} : MuxNode{b.x * u.p, r.y * u.rv, r.B * u.rv, r.mu * u.visc});
    return v;
}
static std::vector<MuxNode> nodesOf(const PvdTab& t, bool oil, const Units& u) {
    std::vector<MuxNode> v;
    for (const auto& r : t.rows) v.push_back({r.y * u.p, 0.0, r.B * (oil ? 1.0 : u.rv), r.mu * u.visc});
    return v;
}
static std::vector<MuxNode> nodesOf(const CcTab& t, const Units& u) {
    std::vector<MuxNode> v;
    const double pref = t.pref * u.p, C = t.c / u.p, Cv = t.cv / u.p;
    for (double f : {1.0, 0.4, 1.7}) {
        const double p = pref * f, X = C * (p - pref), Y = (C - Cv) * (p - pref);
        const double B = t.bref / (1.0 + X + 0.5 * X * X);
        v.push_back({p, 0.0, B, t.bref * t.mu * u.visc / (1.0 + Y + 0.5 * Y * Y) / B});
    }
    return v;
}
template <class InvB, class Mu>
static void checkMuxNodes(Checker& c, const std::vector<MuxNode>& nodes, InvB&& invB, Mu&& mu) {
    auto fInvB = [&](const auto& p, const auto& R) { return invB(p, R); };
    auto fMu = [&](const auto& p, const auto& R) { return mu(p, R); };
    for (const auto& nd : nodes) {
        std::ostringstream w; w.precision(12); w << "p=" << nd.p << " Pa, R=" << nd.R;
        Val vb = c.both("inverseFormationVolumeFactor", fInvB, nd.p, nd.R);
        Val vm = c.both("viscosity", fMu, nd.p, nd.R);
        c.close("mux-node-value:" + c.kw + ":B", "multiplexer-node-value", "B through the multiplexer at " + w.str(), 1.0 / vb.v, nd.B, 1e-7);
        c.close("mux-node-value:" + c.kw + ":mu", "multiplexer-node-value", "mu through the multiplexer at " + w.str(), vm.v, nd.mu, 1e-7);
    }
}

// ---------------------------------------------------------------------------------------------
int main(int argc, char** argv) {
    vh::Args args = vh::parse_args(argc, argv);
    vh::Reporter rep(args, "C14");
    Opm::Parser parser;
    auto python = std::make_shared<Opm::Python>();

    rep.run_cases([&](long idx, Rng& rng) {
        Case cs = genCase(rng, idx);
        if (idx < 2) rep.sample(idx == 0 ? cs.deck : cs.muxDeck, 2, 3500);
        Checker c{rep, cs};
        rep.cover("unit_system", UNITS[cs.unit].name);
        rep.cover("pvt_regions", std::to_string(cs.nreg));

        std::unique_ptr<Opm::EclipseState> es;
        std::unique_ptr<Opm::Schedule> sched;
        try {
            auto deck = parser.parseString(cs.deck);
            es = std::make_unique<Opm::EclipseState>(deck);
            sched = std::make_unique<Opm::Schedule>(deck, *es, python);
        } catch (const std::exception& e) {
            // the generated decks are valid input: a refusal is a failure to honour the table
            c.kw = "deck";
            c.fail("deck-refused", std::string("valid deck refused: ") + std::string(e.what()).substr(0, 300));
            rep.case_done(vh::fnv(cs.deck), false);
            return;
        }

        bool allInit = true;
        auto guarded = [&](const std::string& kw, auto&& body) {
            c.kw = kw;
            try { body(); }
            catch (const std::exception& e) {
                allInit = false;
                c.fail("threw:" + kw, std::string("exception while initialising / evaluating: ") + std::string(e.what()).substr(0, 300));
            }
        };

        guarded("PVTO", [&] {
            Opm::LiveOilPvt<double> pvt;
            pvt.initFromState(*es, *sched);
            if ((int)pvt.numRegions() != cs.nreg) c.fail("num-regions:PVTO", "numRegions() = " + std::to_string(pvt.numRegions()));
            for (int r = 0; r < cs.nreg; ++r) {
                c.region = r;
                const PvtxTab& t = cs.pvto[r];
                rep.cover("PVTO_saturated_nodes", std::to_string(t.br.size()));
                if (t.defaulted) rep.cover("defaulted_region_table", "PVTO");
                checkLive(c, rng, pvt, t, true,
                          [&](const auto& p, const auto& R) { return pvt.inverseFormationVolumeFactor(r, tempOf(p), p, R); },
                          [&](const auto& p, const auto& R) { return pvt.viscosity(r, tempOf(p), p, R); },
                          [&](const auto& p) { return pvt.saturatedInverseFormationVolumeFactor(r, tempOf(p), p); },
                          [&](const auto& p) { return pvt.saturatedViscosity(r, tempOf(p), p); },
                          [&](const auto& p) { return pvt.saturatedGasDissolutionFactor(r, tempOf(p), p); },
                          [&](const auto& R) { return pvt.saturationPressure(r, tempOf(R), R); });
            }
        });
        guarded("PVTG", [&] {
            Opm::WetGasPvt<double> pvt;
            pvt.initFromState(*es, *sched);
            if ((int)pvt.numRegions() != cs.nreg) c.fail("num-regions:PVTG", "numRegions() = " + std::to_string(pvt.numRegions()));
            for (int r = 0; r < cs.nreg; ++r) {
                c.region = r;
                const PvtxTab& t = cs.pvtg[r];
                rep.cover("PVTG_saturated_nodes", std::to_string(t.br.size()));
                if (t.defaulted) rep.cover("defaulted_region_table", "PVTG");
                if (t.dryFirst) rep.count("PVTG_tables_dry_at_the_first_pressure_node");
                checkLive(c, rng, pvt, t, false,
                          [&](const auto& p, const auto& R) { return pvt.inverseFormationVolumeFactor(r, tempOf(p), p, R, zeroOf(p)); },
                          [&](const auto& p, const auto& R) { return pvt.viscosity(r, tempOf(p), p, R, zeroOf(p)); },
                          [&](const auto& p) { return pvt.saturatedInverseFormationVolumeFactor(r, tempOf(p), p); },
                          [&](const auto& p) { return pvt.saturatedViscosity(r, tempOf(p), p); },
                          [&](const auto& p) { return pvt.saturatedOilVaporizationFactor(r, tempOf(p), p); },
                          [&](const auto& R) { return pvt.saturationPressure(r, tempOf(R), R); });
            }
        });
        guarded("PVDO", [&] {
            Opm::DeadOilPvt<double> pvt;
            pvt.initFromState(*es, *sched);
            if ((int)pvt.numRegions() != cs.nreg) c.fail("num-regions:PVDO", "numRegions() = " + std::to_string(pvt.numRegions()));
            for (int r = 0; r < cs.nreg; ++r) {
                c.region = r;
                checkDead(c, rng, cs.pvdo[r], true,
                          [&](const auto& p, const auto& R) { return pvt.inverseFormationVolumeFactor(r, tempOf(p), p, R); },
                          [&](const auto& p, const auto& R) { return pvt.viscosity(r, tempOf(p), p, R); },
                          [&](const auto& p) { return pvt.saturatedInverseFormationVolumeFactor(r, tempOf(p), p); },
                          [&](const auto& p) { return pvt.saturatedViscosity(r, tempOf(p), p); });
            }
        });
        guarded("PVDG", [&] {
            Opm::DryGasPvt<double> pvt;
            pvt.initFromState(*es, *sched);
            if ((int)pvt.numRegions() != cs.nreg) c.fail("num-regions:PVDG", "numRegions() = " + std::to_string(pvt.numRegions()));
            for (int r = 0; r < cs.nreg; ++r) {
                c.region = r;
                checkDead(c, rng, cs.pvdg[r], false,
                          [&](const auto& p, const auto& R) { return pvt.inverseFormationVolumeFactor(r, tempOf(p), p, R, zeroOf(p)); },
                          [&](const auto& p, const auto& R) { return pvt.viscosity(r, tempOf(p), p, R, zeroOf(p)); },
                          [&](const auto& p) { return pvt.saturatedInverseFormationVolumeFactor(r, tempOf(p), p); },
                          [&](const auto& p) { return pvt.saturatedViscosity(r, tempOf(p), p); });
            }
        });
        guarded("PVTW", [&] {
            Opm::ConstantCompressibilityWaterPvt<double> pvt;
            pvt.initFromState(*es, *sched);
            if ((int)pvt.numRegions() != cs.nreg) c.fail("num-regions:PVTW", "numRegions() = " + std::to_string(pvt.numRegions()));
            for (int r = 0; r < cs.nreg; ++r) {
                c.region = r;
                checkConstCompr(c, rng, cs.pvtw[r],
                                [&](const auto& p, const auto& R) { return pvt.inverseFormationVolumeFactor(r, tempOf(p), p, R, zeroOf(p)); },
                                [&](const auto& p, const auto& R) { return pvt.viscosity(r, tempOf(p), p, R, zeroOf(p)); },
                                [&](const auto& p) { return pvt.saturatedInverseFormationVolumeFactor(r, tempOf(p), p, zeroOf(p)); },
                                [&](const auto& p) { return pvt.saturatedViscosity(r, tempOf(p), p, zeroOf(p)); });
            }
        });
        guarded("PVCDO", [&] {
            Opm::ConstantCompressibilityOilPvt<double> pvt;
            pvt.initFromState(*es, *sched);
            if ((int)pvt.numRegions() != cs.nreg) c.fail("num-regions:PVCDO", "numRegions() = " + std::to_string(pvt.numRegions()));
            for (int r = 0; r < cs.nreg; ++r) {
                c.region = r;
                checkConstCompr(c, rng, cs.pvcdo[r],
                                [&](const auto& p, const auto& R) { return pvt.inverseFormationVolumeFactor(r, tempOf(p), p, R); },
                                [&](const auto& p, const auto& R) { return pvt.viscosity(r, tempOf(p), p, R); },
                                [&](const auto& p) { return pvt.saturatedInverseFormationVolumeFactor(r, tempOf(p), p); },
                                [&](const auto& p) { return pvt.saturatedViscosity(r, tempOf(p), p); });
            }
        });

        // ---- the multiplexers on the deck with one oil and one gas keyword -----------------------
        c.deckInUse = &cs.muxDeck;
        static const char* OILKW[] = {"PVTO", "PVDO", "PVCDO"};
        static const char* GASKW[] = {"PVTG", "PVDG"};
        const Units& u = UNITS[cs.unit];
        bool muxDeckOk = true;
        try {
            auto deck = parser.parseString(cs.muxDeck);
            es = std::make_unique<Opm::EclipseState>(deck);
            sched = std::make_unique<Opm::Schedule>(deck, *es, python);
        } catch (const std::exception& e) {
            muxDeckOk = false; allInit = false;
            c.kw = "deck";
            c.fail("deck-refused", std::string("valid deck refused: ") + std::string(e.what()).substr(0, 300));
        }
        if (muxDeckOk) {
            guarded(std::string("mux:") + OILKW[cs.muxOil], [&] {
                Opm::OilPvtMultiplexer<double> pvt;
                pvt.initFromState(*es, *sched);
                static const Opm::OilPvtApproach expect[] = {Opm::OilPvtApproach::LiveOil, Opm::OilPvtApproach::DeadOil, Opm::OilPvtApproach::ConstantCompressibilityOil};
                rep.cover("multiplexer_approach", std::string("oil:") + OILKW[cs.muxOil]);
                if (pvt.approach() != expect[cs.muxOil]) {
                    c.fail(std::string("mux-approach:") + OILKW[cs.muxOil], "OilPvtMultiplexer chose approach " + std::to_string((int)pvt.approach()));
                    return;
                }
                if ((int)pvt.numRegions() != cs.nreg) c.fail("num-regions:" + c.kw, "numRegions() = " + std::to_string(pvt.numRegions()));
                for (int r = 0; r < cs.nreg; ++r) {
                    c.region = r;
                    auto nodes = cs.muxOil == 0 ? nodesOf(cs.pvto[r], true, u) : cs.muxOil == 1 ? nodesOf(cs.pvdo[r], true, u) : nodesOf(cs.pvcdo[r], u);
                    checkMuxNodes(c, nodes,
                                  [&](const auto& p, const auto& R) { return pvt.inverseFormationVolumeFactor(r, tempOf(p), p, R); },
                                  [&](const auto& p, const auto& R) { return pvt.viscosity(r, tempOf(p), p, R); });
                }
            });
            guarded(std::string("mux:") + GASKW[cs.muxGas], [&] {
                Opm::GasPvtMultiplexer<double> pvt;
                pvt.initFromState(*es, *sched);
                static const Opm::GasPvtApproach expect[] = {Opm::GasPvtApproach::WetGas, Opm::GasPvtApproach::DryGas};
                rep.cover("multiplexer_approach", std::string("gas:") + GASKW[cs.muxGas]);
                if (pvt.gasPvtApproach() != expect[cs.muxGas]) {
                    c.fail(std::string("mux-approach:") + GASKW[cs.muxGas], "GasPvtMultiplexer chose approach " + std::to_string((int)pvt.gasPvtApproach()));
                    return;
                }
                if ((int)pvt.numRegions() != cs.nreg) c.fail("num-regions:" + c.kw, "numRegions() = " + std::to_string(pvt.numRegions()));
                for (int r = 0; r < cs.nreg; ++r) {
                    c.region = r;
                    auto nodes = cs.muxGas == 0 ? nodesOf(cs.pvtg[r], false, u) : nodesOf(cs.pvdg[r], false, u);
                    checkMuxNodes(c, nodes,
                                  [&](const auto& p, const auto& R) { return pvt.inverseFormationVolumeFactor(r, tempOf(p), p, R, zeroOf(p)); },
                                  [&](const auto& p, const auto& R) { return pvt.viscosity(r, tempOf(p), p, R, zeroOf(p)); });
                }
            });
            guarded("mux:PVTW", [&] {
                Opm::WaterPvtMultiplexer<double> pvt;
                pvt.initFromState(*es, *sched);
                rep.cover("multiplexer_approach", "water:PVTW");
                if (pvt.approach() != Opm::WaterPvtApproach::ConstantCompressibilityWater) {
                    c.fail("mux-approach:PVTW", "WaterPvtMultiplexer chose approach " + std::to_string((int)pvt.approach()));
                    return;
                }
                if ((int)pvt.numRegions() != cs.nreg) c.fail("num-regions:" + c.kw, "numRegions() = " + std::to_string(pvt.numRegions()));
                for (int r = 0; r < cs.nreg; ++r) {
                    c.region = r;
                    checkMuxNodes(c, nodesOf(cs.pvtw[r], u),
                                  [&](const auto& p, const auto& R) { return pvt.inverseFormationVolumeFactor(r, tempOf(p), p, R, zeroOf(p)); },
                                  [&](const auto& p, const auto& R) { return pvt.viscosity(r, tempOf(p), p, R, zeroOf(p)); });
                }
            });
        }

        rep.count("comparisons", c.comparisons);
        rep.count("tables", 6L * cs.nreg);
        // The saturation pressure failures listed as known findings are rare events (measured: the iteration throws on 0.17 % and
        // gives up with 0 on 0.03 % of the inversions).  A fluid model that fails on a large share of them is not that finding.
        {
            static long seenCases = 0;
            if (++seenCases % 1000 == 0) {
                const long n = rep.cov["comparisons"]["psat-inverse"];
                long f = 0;
                for (const auto& kv : rep.vcount) if (kv.first.rfind("psat-threw", 0) == 0 || kv.first.find(":gave-up-zero") != std::string::npos) f += kv.second;
                rep.maxof("psat_failure_share", n > 0 ? (double)f / (double)n : 0.0);
                if (n >= 5000 && (double)f > 0.02 * (double)n)
                    rep.violation("psat-failure-rate", "saturationPressure() threw or gave up on " + std::to_string(f) + " of " + std::to_string(n) + " inversions (known level: 0.2 %)",
                                  "share of failed saturation pressure inversions after " + std::to_string(seenCases) + " cases of this worker: " + std::to_string(f) + " / " + std::to_string(n) + "\n");
            }
        }
        // non-trivial: the deck was accepted, all six models were initialised and evaluated
        rep.case_done(vh::fnv(cs.muxDeck, vh::fnv(cs.deck)), allInit && c.comparisons >= 100);
    });
    rep.finish();
    return 0;
}
