#include <opm/input/eclipse/Parser/Parser.hpp>
#include <opm/input/eclipse/Parser/ParserKeyword.hpp>
#include <opm/json/JsonObject.hpp>
#include <filesystem>
#include <iostream>
using namespace Opm;
int main(){ Parser p; int n=0,eq=0,missing=0,exc=0;
  for(auto& e: std::filesystem::recursive_directory_iterator("/repo/opm/input/eclipse/share/keywords")){ if(!e.is_regular_file()) continue; if(e.path().extension()==".cmake") continue;
    try{ Json::JsonObject j(e.path()); ParserKeyword kw(j); n++; if(!p.hasKeyword(kw.getName())){ missing++; continue;} const auto& b=p.getKeyword(kw.getName()); if(kw==b) eq++; else std::cout<<"DIFF "<<kw.getName()<<" "<<e.path().string()<<"\n"; }
    catch(const std::exception& ex){ exc++; std::cout<<"EXC "<<e.path().filename().string()<<" "<<ex.what()<<"\n"; } }
  std::cout<<"files="<<n<<" equal="<<eq<<" missing="<<missing<<" exc="<<exc<<"\n"; }
