#include <opm/input/eclipse/Parser/Parser.hpp>
#include <opm/input/eclipse/Deck/Deck.hpp>
#include <opm/input/eclipse/EclipseState/EclipseState.hpp>
#include <opm/input/eclipse/EclipseState/SummaryConfig/SummaryConfig.hpp>
#include <opm/input/eclipse/Schedule/Schedule.hpp>
#include <opm/input/eclipse/Schedule/SummaryState.hpp>
#include <opm/input/eclipse/Schedule/Well/Well.hpp>
#include <opm/input/eclipse/Schedule/Group/Group.hpp>
#include <opm/input/eclipse/Python/Python.hpp>
#include <opm/input/eclipse/Units/UnitSystem.hpp>
#include <opm/output/eclipse/Summary.hpp>
#include <opm/output/data/Wells.hpp>
#include <opm/output/data/Groups.hpp>
#include <opm/output/eclipse/Inplace.hpp>
#include <opm/common/utility/TimeService.hpp>
#include <iostream>
#include <sstream>
#include <random>
#include <cmath>
#include <map>
#include <filesystem>
using namespace Opm;
int main(int argc,char**argv){
  std::mt19937_64 rng(atoi(argv[1])); auto U=[&](double a,double b){return std::uniform_real_distribution<double>(a,b)(rng);};
  int ncase=atoi(argv[2]); int nviol=0; long nchecks=0;
  std::filesystem::create_directories("/tmp/exp/sumout");
  Parser parser; auto python=std::make_shared<Python>();
  for(int it=0;it<ncase;++it){
    int ng=2+rng()%4, nw=2+rng()%4; const char* usn[]={"METRIC","FIELD","LAB","PVT-M"}; int ui=it%4; const double ft=0.3048, stb=42*231*0.0254*0.0254*0.0254; double UL[]={1,stb,1e-6,1}, UG[]={1,1000*ft*ft*ft,1e-6,1}, UR[]={1,stb,1e-6,1}, UT[]={86400,86400,3600,86400};
    std::vector<std::string> gname; std::vector<int> gparent; // -1 => FIELD
    for(int g=0;g<ng;g++){ gname.push_back("G"+std::to_string(g)); gparent.push_back(g==0?-1: (int)(rng()%(g+1))-1); }
    // wells must be in leaf groups (groups w/o child groups)
    std::vector<bool> haschild(ng,false); for(int g=0;g<ng;g++) if(gparent[g]>=0) haschild[gparent[g]]=true;
    std::vector<int> leaves; for(int g=0;g<ng;g++) if(!haschild[g]) leaves.push_back(g);
    std::vector<int> wgroup; std::vector<bool> winj; std::vector<double> wefac(nw), gefac(ng);
    for(int w=0;w<nw;w++){ wgroup.push_back(leaves[rng()%leaves.size()]); winj.push_back(rng()%3==0); wefac[w]=(rng()%2)?U(0.1,1.0):1.0; }
    for(int g=0;g<ng;g++) gefac[g]=(rng()%2)?U(0.1,1.0):1.0;
    std::ostringstream s; s.precision(17);
    s<<"START\n10 MAI 2007 /\nRUNSPEC\n"<<usn[ui]<<"\nDIMENS\n 10 10 3 /\nWELLDIMS\n 10 3 10 10 /\nOIL\nGAS\nWATER\nUNIFOUT\nGRID\nDX\n300*100 /\nDY\n300*100 /\nDZ\n300*10 /\nTOPS\n100*2000 /\nPERMX\n300*100 /\nPERMY\n300*100 /\nPERMZ\n300*10 /\nPORO\n300*0.2 /\nSUMMARY\n";
    const char* kws[]={"WOPR","WWPR","WGPR","WLPR","WOPT","WWPT","WGPT","WLPT","WWIR","WGIR","WWIT","WGIT","WWCT","WGOR","WVPR","WVPT","WVIR","WVIT",
                       "WOPRH","WWPRH","WGPRH","WLPRH","WOPTH","WWPTH","WGPTH","WWCTH","WGORH","WGLR","GOPRH","GOPTH","GWCTH","GLPRH","GOPR","GWPR","GGPR","GLPR","GOPT","GWPT","GGPT","GLPT","GWIR","GGIR","GWIT","GGIT","GWCT","GGOR","GVPR","GVPT","GVIR","GVIT"};
    for(auto k: kws) s<<k<<"\n/\n";
    const char* fkws[]={"FOPR","FWPR","FGPR","FLPR","FOPT","FWPT","FGPT","FLPT","FWIR","FGIR","FWIT","FGIT","FWCT","FGOR","FVPR","FVPT","FVIR","FVIT","FOPRH","FWPRH","FGPRH","FOPTH","FLPRH","FWCTH","FGORH","FGLR"};
    for(auto k: fkws) s<<k<<"\n";
    s<<"SCHEDULE\nGRUPTREE\n"; for(int g=0;g<ng;g++) s<<" '"<<gname[g]<<"' '"<<(gparent[g]<0?std::string("FIELD"):gname[gparent[g]])<<"' /\n"; s<<"/\n";
    s<<"WELSPECS\n"; for(int w=0;w<nw;w++) s<<" 'W"<<w<<"' '"<<gname[wgroup[w]]<<"' "<<(w+1)<<" 1 1* "<<(winj[w]?"WATER":"OIL")<<" /\n"; s<<"/\n";
    s<<"COMPDAT\n"; for(int w=0;w<nw;w++) s<<" 'W"<<w<<"' 0 0 1 2 OPEN /\n"; s<<"/\n";
    s<<"WCONPROD\n"; for(int w=0;w<nw;w++) if(!winj[w]&&w%2==0) s<<" 'W"<<w<<"' OPEN ORAT 100 /\n"; s<<"/\n"; s<<"WCONHIST\n"; for(int w=0;w<nw;w++) if(!winj[w]&&w%2==1) s<<" 'W"<<w<<"' OPEN ORAT "<<100+w<<" "<<50+w<<" "<<1000+w<<" /\n"; s<<"/\n";
    s<<"WCONINJE\n"; for(int w=0;w<nw;w++) if(winj[w]) s<<" 'W"<<w<<"' WATER OPEN RATE 100 1* 500 /\n"; s<<"/\n";
    s<<"WEFAC\n"; for(int w=0;w<nw;w++) if(wefac[w]!=1.0) s<<" 'W"<<w<<"' "<<wefac[w]<<" /\n"; s<<"/\n";
    s<<"GEFAC\n"; for(int g=0;g<ng;g++) if(gefac[g]!=1.0) s<<" '"<<gname[g]<<"' "<<gefac[g]<<" /\n"; s<<"/\n";
    s<<"TSTEP\n 10 10 10 /\n";
    try{
      auto deck=parser.parseString(s.str()); EclipseState es(deck); Schedule sched(deck,es,python);
      SummaryConfig cfg(deck,sched,es.fieldProps(),es.aquifer());
      out::Summary writer(cfg,es,es.getInputGrid(),sched,"/tmp/exp/sumout/CASE"+std::to_string(it));
      SummaryState st(TimeService::from_time_t(sched.getStartTime()), 0.0);
      // reference totals (SI)
      std::map<std::string,double> tot;
      double t=0; const double day=86400;
      writer.eval(st,0,0.0,{}, {}, {}, {}, {}, {}, {});
      for(int step=1;step<=3;step++){
        int nsub=1+rng()%3; 
        for(int sub=0;sub<nsub;sub++){
          double dt=10*UT[ui]/nsub; t+=dt;
          data::Wells wells; std::vector<std::array<double,6>> r(nw); // oil wat gas resoil reswat resgas  (SI, negative = production)
          for(int w=0;w<nw;w++){
            auto& xw=wells["W"+std::to_string(w)];
            double sgn=winj[w]?+1:-1; bool shut=(rng()%5==0);
            double o=winj[w]?0:U(1,100)/day, wa=U(1,100)/day, g=winj[w]?0:U(100,10000)/day; if(!winj[w]&&w%2==1){ xw.current_control.prod=Well::ProducerCMode::ORAT; }
            double ro=o*1.2, rw=wa*1.01, rg=g*0.005;
            xw.rates.set(data::Rates::opt::oil,sgn*o).set(data::Rates::opt::wat,sgn*wa).set(data::Rates::opt::gas,sgn*g)
                    .set(data::Rates::opt::reservoir_oil,sgn*ro).set(data::Rates::opt::reservoir_water,sgn*rw).set(data::Rates::opt::reservoir_gas,sgn*rg);
            xw.dynamicStatus = shut?Well::Status::SHUT:Well::Status::OPEN;
            xw.current_control.isProducer=!winj[w];
            if(shut) r[w]={0,0,0,0,0,0}; else r[w]={o,wa,g,ro,rw,rg};
          }
          writer.eval(st,step,t,wells,{}, {}, {}, {}, {}, {});
          // ---- reference
          auto chain=[&](int w, int stopAt)->double{ // product of WEFAC and GEFACs from well's group up; stopAt: group index to stop before (exclusive), -2 none
            double f=wefac[w]; int g=wgroup[w]; while(g>=0){ if(g==stopAt) break; f*=gefac[g]; g=gparent[g]; } return f; };
          auto insub=[&](int w,int G){ int g=wgroup[w]; while(g>=0){ if(g==G) return true; g=gparent[g]; } return false; };
          auto chk=[&](const std::string& what,double got,double ref){ nchecks++; double tol=1e-9*std::max(1.0,std::fabs(ref)); if(std::fabs(got-ref)>tol*10 && std::fabs(got-ref)>1e-7*std::fabs(ref)){ nviol++; if(nviol<15) std::cout<<"VIOL case="<<it<<" step="<<step<<" "<<what<<" got="<<got<<" ref="<<ref<<"\n"; } };
          const char ph[3]={'O','W','G'}; auto RU=[&](int p){ return (p==2?UG[ui]:UL[ui])/UT[ui]; }; auto VU=[&](int p){ return (p==2?UG[ui]:UL[ui]); }; 
          for(int w=0;w<nw;w++){ std::string wn="W"+std::to_string(w);
            for(int p=0;p<3;p++){ double rate=r[w][p]/RU(p);
              std::string kr=std::string("W")+ph[p]+(winj[w]?"IR":"PR"), kt=std::string("W")+ph[p]+(winj[w]?"IT":"PT");
              if(winj[w] && ph[p]!='W' && ph[p]!='G') continue; if(winj[w]&&ph[p]=='O') continue;
              tot[wn+kt]+=r[w][p]*chain(w,-2)*dt;
              chk(wn+":"+kr, st.get_well_var(wn,kr), rate); chk(wn+":"+kt, st.get_well_var(wn,kt), tot[wn+kt]/VU(p)); }
            if(!winj[w]){ chk(wn+":WLPR", st.get_well_var(wn,"WLPR"), (r[w][0]+r[w][1])/RU(0));
               double l=r[w][0]+r[w][1]; chk(wn+":WWCT", st.get_well_var(wn,"WWCT"), l>0? r[w][1]/l:0); chk(wn+":WGOR", st.get_well_var(wn,"WGOR"), r[w][0]>0? (r[w][2]/r[w][0])/(UG[ui]/UL[ui]):0); chk(wn+":WGLR", st.get_well_var(wn,"WGLR"), l>0? (r[w][2]/l)/(UG[ui]/UL[ui]):0); if(w%2==1){ chk(wn+":WOPRH", st.get_well_var(wn,"WOPRH"), 100+w); chk(wn+":WWPRH", st.get_well_var(wn,"WWPRH"), 50+w); chk(wn+":WGPRH", st.get_well_var(wn,"WGPRH"), 1000+w); chk(wn+":WLPRH", st.get_well_var(wn,"WLPRH"), 150+2*w); chk(wn+":WWCTH", st.get_well_var(wn,"WWCTH"), (50.0+w)/(150+2*w)); chk(wn+":WGORH", st.get_well_var(wn,"WGORH"), (1000.0+w)/(100+w)); }
               chk(wn+":WVPR", st.get_well_var(wn,"WVPR"), (r[w][3]+r[w][4]+r[w][5])/(UR[ui]/UT[ui]));
               chk(wn+":WWIR", st.get_well_var(wn,"WWIR"), 0.0); }
            else { chk(wn+":WOPR", st.get_well_var(wn,"WOPR"), 0.0); chk(wn+":WVIR", st.get_well_var(wn,"WVIR"), (r[w][3]+r[w][4]+r[w][5])/(UR[ui]/UT[ui])); }
          }
          for(int G=-1;G<ng;G++){ std::string gn=G<0?"FIELD":gname[G]; std::string pre=G<0?"F":"G";
            for(int p=0;p<3;p++) for(int inj=0;inj<2;inj++){ if(inj&&p==0) continue;
              double rate=0, dtot=0; for(int w=0;w<nw;w++){ if(winj[w]!=(bool)inj) continue; if(G>=0&&!insub(w,G)) continue; rate+=r[w][p]*(G<0?chain(w,-2):chain(w,G)); dtot+=r[w][p]*chain(w,-2)*dt; }
              std::string kr=pre+ph[p]+(inj?"IR":"PR"), kt=pre+ph[p]+(inj?"IT":"PT"); tot[gn+kt]+=dtot;
              double gr = G<0? st.get(kr): st.get_group_var(gn,kr); double gt= G<0? st.get(kt): st.get_group_var(gn,kt);
              chk(gn+":"+kr, gr, rate/RU(p)); chk(gn+":"+kt, gt, tot[gn+kt]/VU(p)); }
          }
        }
      }
    }catch(const std::exception&e){ std::cout<<"EXC case "<<it<<": "<<std::string(e.what()).substr(0,300)<<"\n"; }
  }
  std::cout<<"cases="<<ncase<<" checks="<<nchecks<<" viol="<<nviol<<"\n";
}
