#include <opm/input/eclipse/Parser/Parser.hpp>
#include <opm/input/eclipse/Deck/Deck.hpp>
#include <opm/input/eclipse/Deck/DeckKeyword.hpp>
#include <opm/input/eclipse/EclipseState/Runspec.hpp>
#include <opm/input/eclipse/Schedule/Action/ActionX.hpp>
#include <opm/input/eclipse/Schedule/Action/ActionContext.hpp>
#include <opm/input/eclipse/Schedule/Action/ActionResult.hpp>
#include <opm/input/eclipse/Schedule/Action/State.hpp>
#include <opm/input/eclipse/Schedule/Action/Actdims.hpp>
#include <opm/input/eclipse/Schedule/SummaryState.hpp>
#include <opm/input/eclipse/Schedule/Well/WListManager.hpp>
#include <opm/common/utility/TimeService.hpp>
#include <iostream>
#include <sstream>
#include <random>
#include <set>
#include <optional>
#include <memory>
using namespace Opm;
struct R { bool b; std::optional<std::set<std::string>> w; };
struct Node { int kind; /*0 cmp,1 and,2 or*/ std::vector<std::shared_ptr<Node>> ch; std::string text; bool wellLevel; std::string q; std::string op; double rhs; std::string pat; };
std::mt19937_64 rng; const int NW=5; std::map<std::string,std::map<std::string,double>> wv; std::map<std::string,double> fv;
static std::shared_ptr<Node> gen(int depth){
  auto n=std::make_shared<Node>(); int k = depth<=0?0:rng()%3;
  if(k==0){ n->kind=0; const char* ops[]={">","<",">=","<=","=","!="}; n->op=ops[rng()%6]; n->rhs=(rng()%10); n->wellLevel=rng()%3!=0;
    if(n->wellLevel){ const char* qs[]={"WOPR","WWCT","WGOR"}; n->q=qs[rng()%3]; const char* pats[]={"'*'","'W*'","'W1'","'W3'"}; n->pat=pats[rng()%4]; std::ostringstream o; o<<n->q<<" "<<n->pat<<" "<<n->op<<" "<<n->rhs; n->text=o.str(); }
    else { const char* qs[]={"FOPR","FWCT"}; n->q=qs[rng()%2]; std::ostringstream o; o<<n->q<<" "<<n->op<<" "<<n->rhs; n->text=o.str(); }
  } else { n->kind=k; int m=2+rng()%2; for(int i=0;i<m;i++) n->ch.push_back(gen(depth-1)); }
  return n; }
// render as condition lines: each comparison on its own line followed by AND/OR; parenthesise children of different kind where needed
static void render(const std::shared_ptr<Node>& n, std::vector<std::string>& toks, int parentKind){
  if(n->kind==0){ toks.push_back(n->text); return; }
  bool paren = (parentKind==1 && n->kind==2) || (parentKind==n->kind && false);
  // add explicit parens randomly when not needed too
  if(parentKind!=-1 && !paren && (rng()%4==0)) paren=true;
  if(paren) toks.push_back("(");
  for(size_t i=0;i<n->ch.size();i++){ render(n->ch[i],toks,n->kind); if(i+1<n->ch.size()) toks.push_back(n->kind==1?"AND":"OR"); }
  if(paren) toks.push_back(")");
}
static bool cmpv(double a,const std::string& op,double b){ if(op==">")return a>b; if(op=="<")return a<b; if(op==">=")return a>=b; if(op=="<=")return a<=b; if(op=="=")return a==b; return a!=b; }
static bool match(const std::string& pat,const std::string& w){ std::string p=pat.substr(1,pat.size()-2); if(p=="*")return true; if(p.back()=='*') return w.compare(0,p.size()-1,p,0,p.size()-1)==0; return p==w; }
static R eval(const std::shared_ptr<Node>& n){
  if(n->kind==0){ if(!n->wellLevel) return {cmpv(fv[n->q],n->op,n->rhs),std::nullopt}; std::set<std::string> s; for(int i=0;i<NW;i++){ std::string w="W"+std::to_string(i); if(match(n->pat,w)&&cmpv(wv[w][n->q],n->op,n->rhs)) s.insert(w);} if(s.empty()) return {false,std::nullopt}; return {true,s}; }
  if(n->kind==1){ R r{true,std::nullopt}; for(auto&c:n->ch){ R x=eval(c); r.b=r.b&&x.b; if(!r.b){ r.w.reset(); } else if(x.w){ if(!r.w) r.w=x.w; else { std::set<std::string> t; for(auto&e:*r.w) if(x.w->count(e)) t.insert(e); r.w=t; } } } if(!r.b) r.w.reset(); return r; }
  R r{false,std::nullopt}; for(auto&c:n->ch){ R x=eval(c); r.b=r.b||x.b; if(r.b && x.w){ if(!r.w) r.w=std::set<std::string>{}; r.w->insert(x.w->begin(),x.w->end()); } } if(!r.b) r.w.reset(); return r; }
int main(int argc,char**argv){ rng.seed(atoi(argv[1])); Parser parser; long n=0,nviol=0,nexc=0;
  for(int it=0;it<atoi(argv[2]);++it){
    for(int i=0;i<NW;i++){ std::string w="W"+std::to_string(i); for(auto q:{"WOPR","WWCT","WGOR"}) wv[w][q]=rng()%10; } for(auto q:{"FOPR","FWCT"}) fv[q]=rng()%10;
    auto root=gen(1+rng()%3); std::vector<std::string> toks; render(root,toks,-1);
    // build ACTIONX keyword text: each condition line "lhs op rhs [AND|OR] /" ; parentheses attach to lines
    std::ostringstream s; s<<"ACTIONX\n 'A' 10 /\n"; std::string line; 
    for(size_t i=0;i<toks.size();i++){ const auto&t=toks[i]; if(t=="AND"||t=="OR"){ line+=" "+t; s<<" "<<line<<" /\n"; line.clear(); } else { line+= (line.empty()?"":" ")+t; } }
    if(!line.empty()) s<<" "<<line<<" /\n"; s<<"/\nENDACTIO\n";
    try{
      auto deck=parser.parseString(std::string("SCHEDULE\n")+s.str()); const auto& kw=deck["ACTIONX"].back();
      auto [action,errors]=Action::parseActionX(kw,Actdims{},0); if(!errors.empty()){ nexc++; if(nexc<5) std::cout<<"COND-ERR "<<errors[0].second<<"\n"<<s.str(); continue; }
      SummaryState st(TimeService::now(),0.0); for(auto&[w,m]:wv) for(auto&[q,v]:m) st.update_well_var(w,q,v); for(auto&[q,v]:fv) st.update(q,v);
      WListManager wlm; Action::Context ctx(st,wlm); auto res=action.eval(ctx); R ref=eval(root); n++;
      std::set<std::string> got; for(const auto& w: res.matches().wells()) got.insert(w);
      bool ok = res.conditionSatisfied()==ref.b && got==(ref.w?*ref.w:std::set<std::string>{});
      if(!ok){ nviol++; if(nviol<8){ std::cout<<"VIOL got="<<res.conditionSatisfied()<<" {"; for(auto&w:got)std::cout<<w<<","; std::cout<<"} ref="<<ref.b<<" {"; if(ref.w) for(auto&w:*ref.w)std::cout<<w<<","; std::cout<<"}\n"<<s.str(); } }
    }catch(const std::exception&e){ nexc++; if(nexc<5) std::cout<<"EXC "<<std::string(e.what()).substr(0,200)<<"\n"<<s.str(); }
  }
  std::cout<<"evaluated="<<n<<" viol="<<nviol<<" exc="<<nexc<<"\n"; }
