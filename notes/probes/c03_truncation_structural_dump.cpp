#include <config.h>
#include "ser_includes.hpp"
#include <opm/input/eclipse/Parser/Parser.hpp>
#include <opm/input/eclipse/Parser/ParseContext.hpp>
#include <opm/input/eclipse/Parser/ErrorGuard.hpp>
#include <opm/input/eclipse/Parser/InputErrorAction.hpp>
#include <opm/input/eclipse/Deck/Deck.hpp>
#include <opm/input/eclipse/EclipseState/EclipseState.hpp>
#include <opm/input/eclipse/Python/Python.hpp>
#include <opm/common/utility/Serializer.hpp>
#include <opm/common/utility/MemPacker.hpp>
#include <opm/common/utility/TimeService.hpp>
// --- the include set of tests/test_Serialization.cpp for Schedule and friends
#include <iostream>
#include <sstream>
#include <map>
#include <set>
#include <unordered_map>
#include <unordered_set>
#include <variant>
#include <optional>
#include <type_traits>
#include <cstring>
using namespace Opm;
// ---------- structural dump visitor with the Serializer call interface
struct DumpVisitor {
  std::ostringstream out; int depth=0;
  bool isSerializing() const { return true; }
  template<class T> struct is_vec:std::false_type{}; template<class T,class A> struct is_vec<std::vector<T,A>>:std::true_type{};
  template<class T> struct is_opt:std::false_type{}; template<class T> struct is_opt<std::optional<T>>:std::true_type{};
  template<class T> struct is_var:std::false_type{}; template<class...T> struct is_var<std::variant<T...>>:std::true_type{};
  template<class T> struct is_pair:std::false_type{}; template<class A,class B> struct is_pair<std::pair<A,B>>:std::true_type{}; template<class...T> struct is_pair<std::tuple<T...>>:std::true_type{};
  template<class T> struct is_sp:std::false_type{}; template<class T> struct is_sp<std::shared_ptr<T>>:std::true_type{}; template<class T> struct is_sp<std::unique_ptr<T>>:std::true_type{};
  template<class T> struct is_map:std::false_type{}; template<class K,class V,class C,class A> struct is_map<std::map<K,V,C,A>>:std::true_type{}; template<class K,class V,class H,class E,class A> struct is_map<std::unordered_map<K,V,H,E,A>>:std::true_type{};
  template<class T> struct is_set:std::false_type{}; template<class K,class C,class A> struct is_set<std::set<K,C,A>>:std::true_type{}; template<class K,class H,class E,class A> struct is_set<std::unordered_set<K,H,E,A>>:std::true_type{};
  template<class T> struct is_arr:std::false_type{}; template<class T,std::size_t N> struct is_arr<std::array<T,N>>:std::true_type{};
  template<class T, class=void> struct has_sop:std::false_type{}; template<class T> struct has_sop<T,std::void_t<decltype(std::declval<T&>().serializeOp(std::declval<DumpVisitor&>()))>>:std::true_type{};
  template<class T> std::string sub(const T& x){ DumpVisitor v; v(x); return v.out.str(); }
  template<class T> void operator()(const T& x){
    using U=std::remove_cv_t<std::remove_reference_t<T>>;
    if constexpr(is_sp<U>::value){ if(x){ out<<"&"; (*this)(*x);} else out<<"null"; }
    else if constexpr(is_pair<U>::value){ out<<"("; std::apply([this](const auto&... e){ ((this->operator()(e), out<<","),...); }, x); out<<")"; }
    else if constexpr(is_var<U>::value){ out<<"v"<<x.index()<<":"; std::visit([this](const auto& e){ (*this)(e); }, x); }
    else if constexpr(is_opt<U>::value){ if(x){ out<<"some:"; (*this)(*x);} else out<<"none"; }
    else if constexpr(std::is_same_v<U,std::vector<bool>>){ out<<"["; for(bool b:x) out<<(b?'1':'0'); out<<"]"; }
    else if constexpr(is_vec<U>::value||is_arr<U>::value){ out<<"["; for(const auto& e:x){ (*this)(e); out<<","; } out<<"]"; }
    else if constexpr(is_map<U>::value){ std::map<std::string,std::string> m; for(const auto& [k,v]:x) m[sub(k)]=sub(v); out<<"{"; for(auto&[k,v]:m) out<<k<<"=>"<<v<<";"; out<<"}"; }
    else if constexpr(is_set<U>::value){ std::set<std::string> s; for(const auto& k:x) s.insert(sub(k)); out<<"{"; for(auto&k:s) out<<k<<";"; out<<"}"; }
    else if constexpr(has_sop<U>::value){ out<<"<"; const_cast<U&>(x).serializeOp(*this); out<<">"; }
    else if constexpr(std::is_same_v<U,std::string>){ out<<'"'<<x<<'"'; }
    else if constexpr(std::is_floating_point_v<U>){ std::uint64_t b=0; double d=x; std::memcpy(&b,&d,8); out<<std::hex<<b<<std::dec; }
    else if constexpr(std::is_enum_v<U>){ out<<static_cast<long>(x); }
    else if constexpr(std::is_arithmetic_v<U>){ out<<+x; }
    else if constexpr(std::is_same_v<U,time_point>){ out<<"t"<<x.time_since_epoch().count(); }
    else { out<<"pod"<<sizeof(U)<<":"; const unsigned char* p=reinterpret_cast<const unsigned char*>(&x); for(size_t i=0;i<sizeof(U);i++) out<<std::hex<<(int)p[i]; out<<std::dec; }
    out<<" ";
  }
};
struct Ser : Serializer<Serialization::MemPacker> { using Serializer::Serializer; const std::vector<char>& buf() const { return m_buffer; } };
int main(int argc,char**argv){
  ParseContext pc; pc.update(InputErrorAction::IGNORE); ErrorGuard eg; Parser p; auto python=std::make_shared<Python>();
  for(int a=1;a<argc;a++){ try{
    auto deck=p.parseFile(argv[a],pc,eg); EclipseState es(deck); Schedule full(deck,es,pc,eg,python);
    std::vector<size_t> timekw; bool insched=false; for(size_t i=0;i<deck.size();++i){ const auto& kw=deck[i]; if(kw.name()=="SCHEDULE") insched=true; if(insched&&(kw.name()=="DATES"||kw.name()=="TSTEP")) timekw.push_back(i);}
    std::vector<std::string> fd; for(size_t k=0;k<full.size();k++){ DumpVisitor d; d(full[k]); fd.push_back(d.out.str()); }
    long cmp=0,bad=0,badeq=0; 
    for(size_t c=0;c<timekw.size();c+=std::max<size_t>(1,timekw.size()/8)){ Deck tr(deck); tr.remove_keywords(timekw[c]+1,deck.size());
      try{ Schedule ts(tr,es,pc,eg,python); size_t K=ts.size()-1; for(size_t k=0;k<K;k++){ cmp++; DumpVisitor d; d(ts[k]); if(d.out.str()!=fd[k]){ bad++; if(bad<3){ const std::string&A=d.out.str(),&B=fd[k]; size_t i=0; while(i<A.size()&&i<B.size()&&A[i]==B[i]) i++; std::cout<<"  DUMPDIFF cut="<<c<<" k="<<k<<" at "<<i<<": ..."<<A.substr(i>60?i-60:0,140)<<"\n   vs ..."<<B.substr(i>60?i-60:0,140)<<"\n"; } } if(!(ts[k]==full[k])) badeq++; } }
      catch(const std::exception&e){ std::cout<<"  trunc exc "<<std::string(e.what()).substr(0,120)<<"\n"; } }
    std::cout<<argv[a]<<" steps="<<full.size()<<" compared="<<cmp<<" dumpdiff="<<bad<<" eqdiff="<<badeq<<"\n";
  }catch(const std::exception&e){ std::cout<<argv[a]<<" EXC "<<std::string(e.what()).substr(0,160)<<"\n"; } }
}
