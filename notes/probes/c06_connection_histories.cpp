#include <opm/input/eclipse/Parser/Parser.hpp>
#include <opm/input/eclipse/Deck/Deck.hpp>
#include <opm/input/eclipse/EclipseState/EclipseState.hpp>
#include <opm/input/eclipse/Schedule/Schedule.hpp>
#include <opm/input/eclipse/Schedule/Well/Well.hpp>
#include <opm/input/eclipse/Schedule/Well/WellConnections.hpp>
#include <opm/input/eclipse/Schedule/Well/Connection.hpp>
#include <opm/input/eclipse/Python/Python.hpp>
#include <iostream>
#include <sstream>
#include <random>
#include <cmath>
#include <map>
using namespace Opm;
struct RC{ int k; double cf; bool open; int complnum; double mult; };
int main(int argc,char**argv){ std::mt19937_64 rng(atoi(argv[1])); auto U=[&](double a,double b){return std::uniform_real_distribution<double>(a,b)(rng);};
  Parser parser; auto python=std::make_shared<Python>(); long nchk=0,nviol=0;
  for(int it=0;it<atoi(argv[2]);++it){ int nz=6; int nsteps=2+rng()%5;
    std::ostringstream s; s.precision(12); s<<"RUNSPEC\nDIMENS\n 2 2 "<<nz<<" /\nOIL\nWATER\nGAS\nMETRIC\nWELLDIMS\n 3 10 2 3 /\nSTART\n 1 JAN 2020 /\nGRID\nDX\n "<<4*nz<<"*100 /\nDY\n "<<4*nz<<"*100 /\nDZ\n "<<4*nz<<"*5 /\nTOPS\n 4*2000 /\nPERMX\n "<<4*nz<<"*100 /\nPERMY\n "<<4*nz<<"*100 /\nPERMZ\n "<<4*nz<<"*10 /\nPORO\n "<<4*nz<<"*0.2 /\nPROPS\nSOLUTION\nSCHEDULE\nWELSPECS\n 'W' 'G' 1 1 1* OIL /\n 'V' 'G' 2 2 1* OIL /\n/\nCOMPDAT\n 'V' 2 2 1 3 OPEN 1* 7.5 /\n/\n";
    std::vector<RC> ref; // reference connection list for W in insertion order
    std::vector<std::vector<RC>> refAt;
    for(int st=0; st<nsteps; st++){
      int nops=1+rng()%3;
      for(int o=0;o<nops;o++){ int kind=rng()%4; if(ref.empty()) kind=0;
        if(kind==0||kind==1){ int k1=1+rng()%nz, k2=k1+rng()%(nz-k1+1); double cf=std::round(U(1,50)*10)/10; bool open=rng()%4!=0; s<<"COMPDAT\n 'W' 1 1 "<<k1<<" "<<k2<<" "<<(open?"OPEN":"SHUT")<<" 1* "<<cf<<" /\n/\n";
          for(int k=k1;k<=k2;k++){ bool found=false; for(auto&c:ref) if(c.k==k){ c.cf=cf; c.open=open; c.mult=1.0; found=true; } if(!found) ref.push_back({k,cf,open,(int)ref.size()+1,1.0}); } }
        else if(kind==2){ // WPIMULT on one connection by K
          int k=ref[rng()%ref.size()].k; double f=std::round(U(0.5,2.0)*100)/100; s<<"WPIMULT\n 'W' "<<f<<" 1* 1* "<<k<<" /\n/\n"; for(auto&c:ref) if(c.k==k){ c.cf*=f; c.mult*=f; } }
        else { // WELOPEN on a connection
          int k=ref[rng()%ref.size()].k; bool open=rng()%2; s<<"WELOPEN\n 'W' "<<(open?"OPEN":"SHUT")<<" 1 1 "<<k<<" /\n/\n"; for(auto&c:ref) if(c.k==k) c.open=open; }
      }
      refAt.push_back(ref); s<<"TSTEP\n 10 /\n";
    }
    try{ auto deck=parser.parseString(s.str()); EclipseState es(deck); Schedule sched(deck,es,python);
      for(int st=0; st<nsteps; st++){ const auto& conns=sched.getWell("W",st).getConnections(); const auto& r=refAt[st]; nchk++; if(conns.size()!=r.size()){ nviol++; if(nviol<8) std::cout<<"VIOL size step "<<st<<" "<<conns.size()<<" vs "<<r.size()<<"\n"<<s.str(); continue; }
        for(size_t i=0;i<r.size();i++){ size_t ci=0; for(size_t q=0;q<conns.size();q++) if(conns[q].getK()==r[i].k-1) ci=q; const auto& c=conns[ci]; nchk++; double cfm=c.CF()/(9.869232667160130e-16*1e-3/ (1e5*86400))*0; // unused
          double cf_metric = c.CF() / (1e-3 /* cP */ * 1.0 /(86400.0*1e5)); // Transmissibility metric: cP*rm3/(day*bar)
          bool ok = c.getK()==r[i].k-1 && c.complnum()==r[i].complnum && (c.state()==Connection::State::OPEN)==r[i].open && std::fabs(cf_metric-r[i].cf)<=1e-9*r[i].cf && std::fabs(c.wpimult()-r[i].mult)<1e-12;
          if(!ok){ nviol++; if(nviol<8) std::cout<<"VIOL step "<<st<<" conn "<<i<<" K="<<c.getK()+1<<"/"<<r[i].k<<" complnum="<<c.complnum()<<"/"<<r[i].complnum<<" open="<<(c.state()==Connection::State::OPEN)<<"/"<<r[i].open<<" cf="<<cf_metric<<"/"<<r[i].cf<<" mult="<<c.wpimult()<<"/"<<r[i].mult<<"\n"<<(nviol<3?s.str():""); } }
        // other well untouched
        const auto& vc=sched.getWell("V",st).getConnections(); nchk++; if(vc.size()!=3){nviol++; std::cout<<"VIOL V size\n";} }
    }catch(const std::exception&e){ nviol++; std::cout<<"EXC "<<std::string(e.what()).substr(0,200)<<"\n"; }
  }
  std::cout<<"checks="<<nchk<<" viol="<<nviol<<"\n"; }
