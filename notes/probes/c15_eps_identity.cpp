#include <config.h>
#include <opm/input/eclipse/Parser/Parser.hpp>
#include <opm/input/eclipse/Deck/Deck.hpp>
#include <opm/input/eclipse/EclipseState/EclipseState.hpp>
#include <opm/input/eclipse/EclipseState/Grid/FieldPropsManager.hpp>
#include <opm/material/fluidmatrixinteractions/EclMaterialLawManager.hpp>
#include <opm/material/fluidmatrixinteractions/MaterialTraits.hpp>
#include <opm/material/fluidstates/SimpleModularFluidState.hpp>
#include <iostream>
#include <sstream>
#include <random>
#include <cmath>
#include <functional>
#include <set>
using namespace Opm;
using Scalar=double;
using MaterialTraits = Opm::ThreePhaseMaterialTraits<Scalar,0,1,2>;
using FluidState = Opm::SimpleModularFluidState<Scalar,3,3,void,false,false,false,false,true,false,false,false>;
using Mgr = Opm::EclMaterialLawManager<MaterialTraits>; using Law = Mgr::MaterialLaw;
std::function<std::vector<int>(const FieldPropsManager&, const std::string&, bool)> doOldLookup =
    [](const FieldPropsManager& fp, const std::string& s, bool tr){ std::vector<int> d; const auto& r=fp.get_int(s); d.resize(r.size()); for(size_t i=0;i<r.size();i++) d[i]=r[i]-tr; return d; };
std::function<unsigned(unsigned)> doNothing=[](unsigned e){return e;};
static double lin(const std::vector<double>&x,const std::vector<double>&y,double v){ if(v<=x.front())return y.front(); if(v>=x.back())return y.back(); size_t i=1; while(x[i]<v)i++; double a=(v-x[i-1])/(x[i]-x[i-1]); return y[i-1]+a*(y[i]-y[i-1]); }
int main(int argc,char**argv){
  std::mt19937_64 rng(atoi(argv[1])); auto U=[&](double a,double b){return std::uniform_real_distribution<double>(a,b)(rng);};
  Parser parser; long nchk=0,nviol=0; double maxd=0;
  auto chk=[&](const std::string&w,double a,double b,double tol){ nchk++; double d=std::fabs(a-b); if(d>maxd)maxd=d; if(!(d<=tol)){ nviol++; if(nviol<15) std::cout<<"VIOL "<<w<<" "<<a<<" vs "<<b<<"\n"; } };
  for(int it=0;it<atoi(argv[2]);++it){
    int nw=3+rng()%6, ng=3+rng()%6; double swco=std::round(U(0.05,0.3)*100)/100;
    std::vector<double> sw(nw),krw(nw),krow(nw),pcow(nw); for(int i=0;i<nw;i++) sw[i]=swco+(1.0-swco)*i/(nw-1); 
    { double a=0,b=1,p=U(1,3); for(int i=0;i<nw;i++){ krw[i]= i==0?0: std::min(1.0, krw[i-1]+U(0.01,0.3)); } krw[0]=0; for(int i=nw-1;i>=0;i--){ krow[i]= i==nw-1?0: std::min(1.0, krow[i+1]+U(0.01,0.3)); } for(int i=0;i<nw;i++) pcow[i]=p*(nw-1-i)/(nw-1); }
    std::vector<double> sg(ng),krg(ng),krog(ng),pcgo(ng); for(int i=0;i<ng;i++) sg[i]=(1.0-swco)*i/(ng-1);
    { for(int i=0;i<ng;i++) krg[i]= i==0?0: std::min(1.0,krg[i-1]+U(0.01,0.3)); for(int i=ng-1;i>=0;i--) krog[i]= i==ng-1?0: std::min(1.0,krog[i+1]+U(0.01,0.3)); krog[0]=krow[0]; for(int i=0;i<ng;i++) pcgo[i]=0.5*i/(ng-1); }
    // make krog monotone decreasing consistent with krog[0]=krow[0]
    for(int i=1;i<ng;i++) krog[i]=std::min(krog[i],krog[i-1]);
    auto head=[&](){ std::ostringstream s; s.precision(15); s<<"RUNSPEC\nDIMENS\n 2 1 1 /\nOIL\nGAS\nWATER\nMETRIC\nTABDIMS\n 1 1 40 40 /\nGRID\nDX\n 2*10 /\nDY\n 2*10 /\nDZ\n 2*2 /\nTOPS\n 2*1000 /\nPORO\n 2*0.2 /\nPERMX\n 2*100 /\nPROPS\n"; return s.str(); };
    std::ostringstream f1; f1.precision(15); f1<<head()<<"SWOF\n"; for(int i=0;i<nw;i++) f1<<" "<<sw[i]<<" "<<krw[i]<<" "<<krow[i]<<" "<<pcow[i]<<"\n"; f1<<"/\nSGOF\n"; for(int i=0;i<ng;i++) f1<<" "<<sg[i]<<" "<<krg[i]<<" "<<krog[i]<<" "<<pcgo[i]<<"\n"; f1<<"/\nSOLUTION\nSCHEDULE\n";
    // family II
    std::set<double> sos; for(int i=0;i<nw;i++) sos.insert(1.0-sw[i]); for(int i=0;i<ng;i++) sos.insert(1.0-swco-sg[i]); sos.insert(0.0);
    std::ostringstream f2; f2.precision(15); f2<<head()<<"SWFN\n"; for(int i=0;i<nw;i++) f2<<" "<<sw[i]<<" "<<krw[i]<<" "<<pcow[i]<<"\n"; f2<<"/\nSGFN\n"; for(int i=0;i<ng;i++) f2<<" "<<sg[i]<<" "<<krg[i]<<" "<<pcgo[i]<<"\n"; f2<<"/\nSOF3\n";
    { std::vector<double> sox,kw_,kg_; for(int i=nw-1;i>=0;i--){ sox.push_back(1.0-sw[i]); kw_.push_back(krow[i]); } std::vector<double> sogx,kgx; for(int i=ng-1;i>=0;i--){ sogx.push_back(1.0-swco-sg[i]); kgx.push_back(krog[i]); }
      for(double so: sos){ f2<<" "<<so<<" "<<lin(sox,kw_,so)<<" "<<lin(sogx,kgx,so)<<"\n"; } }
    f2<<"/\nSOLUTION\nSCHEDULE\n";
    // ---- EPS identity deck (family I + ENDSCALE + own end points)
    double swcr=sw[0]; for(int i=0;i<nw;i++) if(krw[i]==0) swcr=sw[i]; double sowcr=1-sw[nw-1]; for(int i=nw-1;i>=0;i--) if(krow[i]==0) sowcr=1-sw[i]; double sgcr=sg[0]; for(int i=0;i<ng;i++) if(krg[i]==0) sgcr=sg[i]; double sogcr=1-swco-sg[ng-1]; for(int i=ng-1;i>=0;i--) if(krog[i]==0) sogcr=1-swco-sg[i];
    std::string f3s=f1.str(); { auto p=f3s.find("TABDIMS"); f3s.insert(p,"ENDSCALE\n /\n"); std::ostringstream e; e.precision(15); e<<"SWL\n 2*"<<swco<<" /\nSWCR\n 2*"<<swcr<<" /\nSWU\n 2*1.0 /\nSGL\n 2*0.0 /\nSGCR\n 2*"<<sgcr<<" /\nSGU\n 2*"<<1-swco<<" /\nSOWCR\n 2*"<<sowcr<<" /\nSOGCR\n 2*"<<sogcr<<" /\n"; auto q=f3s.find("SOLUTION"); f3s.insert(q,e.str()); }
    try{
      auto d1=parser.parseString(f1.str()); EclipseState e1(d1); Mgr m1; m1.initFromState(e1); m1.initParamsForElements(e1,2,doOldLookup,doNothing);
      auto d2=parser.parseString(f2.str()); EclipseState e2(d2); Mgr m2; m2.initFromState(e2); m2.initParamsForElements(e2,2,doOldLookup,doNothing);
      Mgr m3; bool have3=false; try{ auto d3=parser.parseString(f3s); EclipseState e3(d3); m3.initFromState(e3); m3.initParamsForElements(e3,2,doOldLookup,doNothing); have3=true; nchk++;  }catch(const std::exception&e){ nviol++; std::cout<<"EXC eps "<<std::string(e.what()).substr(0,200)<<"\n"; }
      auto evalAt=[&](Mgr& m,double Sw,double Sg,std::array<double,3>& kr,std::array<double,3>& pc){ FluidState fs; fs.setSaturation(0,Sw); fs.setSaturation(1,1-Sw-Sg); fs.setSaturation(2,Sg); Law::relativePermeabilities(kr,m.materialLawParams(0),fs); Law::capillaryPressures(pc,m.materialLawParams(0),fs); };
      // nodes: oil-water (Sg=0)
      for(int i=0;i<nw;i++){ std::array<double,3> kr,pc; evalAt(m1,sw[i],0.0,kr,pc); chk("krw node",kr[0],krw[i],1e-12); chk("krow node",kr[1],krow[i],1e-12); chk("pcow node",pc[1]-pc[0],pcow[i]*1e5,1e-6);
        std::array<double,3> kr2,pc2; evalAt(m2,sw[i],0.0,kr2,pc2); for(int p=0;p<3;p++){ chk("fam kr ow",kr2[p],kr[p],1e-12); chk("fam pc ow",pc2[p],pc[p],1e-6);} }
      for(int i=0;i<ng;i++){ std::array<double,3> kr,pc; evalAt(m1,swco,sg[i],kr,pc); chk("krg node",kr[2],krg[i],1e-12); chk("krog node",kr[1],krog[i],1e-12); chk("pcgo node",pc[2]-pc[1],pcgo[i]*1e5,1e-6);
        std::array<double,3> kr2,pc2; evalAt(m2,swco,sg[i],kr2,pc2); for(int p=0;p<3;p++){ chk("fam kr go",kr2[p],kr[p],1e-12); } }
      // random interior two-phase points: monotone & bounded, fam equality
      double prev=-1; for(int q=0;q<50;q++){ double S=swco+(1-swco)*q/49.0; std::array<double,3> kr,pc,kr2,pc2; evalAt(m1,S,0.0,kr,pc); evalAt(m2,S,0.0,kr2,pc2); nchk++; if(!(kr[0]>=prev-1e-14&&kr[0]>=0&&kr[0]<=1)){nviol++; std::cout<<"VIOL monotone krw\n";} prev=kr[0]; for(int p=0;p<3;p++) chk("fam kr interior",kr2[p],kr[p],1e-12); if(have3){ std::array<double,3> kr3,pc3; evalAt(m3,S,0.0,kr3,pc3); for(int p=0;p<3;p++){ chk("eps identity kr ow",kr3[p],kr[p],1e-10); chk("eps identity pc",pc3[p],pc[p],1e-5);} double Sg=(1-swco)*q/49.0; std::array<double,3> a,b,c,d; evalAt(m1,swco,Sg,a,b); evalAt(m3,swco,Sg,c,d); for(int p=0;p<3;p++) chk("eps identity kr go",c[p],a[p],1e-10); } }
    }catch(const std::exception&e){ nviol++; std::cout<<"EXC "<<std::string(e.what()).substr(0,300)<<"\n"; }
  }
  std::cout<<"checks="<<nchk<<" viol="<<nviol<<" maxdiff="<<maxd<<"\n";
}
