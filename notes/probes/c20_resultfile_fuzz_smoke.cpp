#include <cstring>
#include <opm/io/eclipse/EclFile.hpp>
#include <opm/io/eclipse/ERst.hpp>
#include <opm/io/eclipse/ESmry.hpp>
#include <opm/io/eclipse/ExtESmry.hpp>
#include <opm/io/eclipse/EGrid.hpp>
#include <opm/io/eclipse/ERft.hpp>
#include <opm/io/eclipse/EInit.hpp>
#include <iostream>
#include <fstream>
#include <random>
#include <filesystem>
#include <vector>
using namespace Opm::EclIO;
static std::string slurp(const std::string& f){ std::ifstream i(f, std::ios::binary); return std::string(std::istreambuf_iterator<char>(i), {}); }
int main(int argc,char**argv){ unsigned long seed=atol(argv[1]); int n=atoi(argv[2]); std::mt19937_64 rng(seed);
  struct Src{ std::string path, ext; std::string data; }; std::vector<Src> src; for(int a=3;a<argc;a++){ std::filesystem::path p(argv[a]); src.push_back({argv[a],p.extension().string(),slurp(argv[a])}); }
  std::string dir="/tmp/exp/ff"+std::to_string(seed); std::filesystem::create_directories(dir); long ok=0,exc=0;
  for(int c=0;c<n;c++){ const auto& s=src[rng()%src.size()]; std::string d=s.data; int nm=1+rng()%4;
    for(int m=0;m<nm&&!d.empty();m++){ size_t p=rng()%d.size(); switch(rng()%6){ case 0: d[p]=(char)rng(); break; case 1: d.resize(p); break; case 2: { size_t q=rng()%d.size(); size_t len=std::min<size_t>(1+rng()%64,d.size()-q); d.insert(p,d.substr(q,len)); break;} case 3: { size_t len=std::min<size_t>(1+rng()%64,d.size()-p); d.erase(p,len); break;} case 4: { // corrupt a 4-byte int with hostile value
          if(p+4<=d.size()){ const unsigned char v[][4]={{0x7f,0xff,0xff,0xff},{0x80,0,0,0},{0xff,0xff,0xff,0xff},{0,0,0,0},{0,0,0x10,0}}; memcpy(&d[p],v[rng()%5],4);} break; } case 5: { if(p+8<=d.size()) memcpy(&d[p],"SEQNUM  ",8); break; } } }
    std::string fn=dir+"/CASE"+s.ext; { std::ofstream o(fn,std::ios::binary|std::ios::trunc); o<<d; } { std::ofstream j(dir+"/journal.txt",std::ios::trunc); j<<seed<<" "<<c<<" "<<s.path<<"\n"; }
    try{ if(s.ext==".UNRST"||s.ext==".FUNRST"||s.ext.substr(0,2)==".X"||s.ext.substr(0,2)==".F0"){ ERst r(fn); for(int st: r.listOfReportStepNumbers()){ r.loadReportStepNumber(st); for(auto& a: r.listOfRstArrays(st)) (void)a; } }
      else if(s.ext==".SMSPEC"){ std::filesystem::copy_file(std::filesystem::path(s.path).replace_extension(".UNSMRY"), dir+"/CASE.UNSMRY", std::filesystem::copy_options::overwrite_existing); ESmry e(fn); e.loadData(); for(auto& k: e.keywordList()) (void)e.get(k); }
      else if(s.ext==".UNSMRY"){ std::filesystem::copy_file(std::filesystem::path(s.path).replace_extension(".SMSPEC"), dir+"/CASE.SMSPEC", std::filesystem::copy_options::overwrite_existing); ESmry e(dir+"/CASE.SMSPEC"); e.loadData(); for(auto& k: e.keywordList()) (void)e.get(k); }
      else if(s.ext==".EGRID"||s.ext==".FEGRID"){ EGrid g(fn); g.load_grid_data(); auto d3=g.dimension(); if(g.totalNumberOfCells()<100000) for(int i=0;i<g.totalNumberOfCells();i+=7){ auto ijk=g.ijk_from_global_index(i); std::array<double,8> X,Y,Z; g.getCellCorners(ijk,X,Y,Z); } }
      else if(s.ext==".RFT"){ ERft r(fn); for(auto& rep: r.listOfRftReports()) (void)rep; }
      else if(s.ext==".ESMRY"){ ExtESmry e(fn); e.loadData(); }
      else { EclFile f(fn); f.loadData(); for(auto& a: f.getList()) (void)a; }
      ok++; }catch(const std::exception&){ exc++; }
  }
  std::cout<<"seed="<<seed<<" cases="<<n<<" ok="<<ok<<" exc="<<exc<<"\n"; std::filesystem::remove_all(dir); }
