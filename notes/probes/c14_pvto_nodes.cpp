#include <config.h>
#include <opm/input/eclipse/Parser/Parser.hpp>
#include <opm/input/eclipse/Deck/Deck.hpp>
#include <opm/input/eclipse/EclipseState/EclipseState.hpp>
#include <opm/input/eclipse/Schedule/Schedule.hpp>
#include <opm/input/eclipse/Python/Python.hpp>
#include <opm/material/fluidsystems/blackoilpvt/LiveOilPvt.hpp>


#include <opm/material/densead/Evaluation.hpp>
#include <opm/material/densead/Math.hpp>
#include <iostream>
#include <sstream>
#include <random>
#include <cmath>
using namespace Opm;
int main(int argc,char**argv){
  std::mt19937_64 rng(atoi(argv[1])); auto U=[&](double a,double b){return std::uniform_real_distribution<double>(a,b)(rng);};
  Parser parser; auto python=std::make_shared<Python>(); long nchk=0,nviol=0; double maxrel=0;
  auto chk=[&](const std::string& what,double got,double ref,double rtol){ nchk++; double rel=std::fabs(got-ref)/std::max(std::fabs(ref),1e-300); if(rel>maxrel&&rel<1) maxrel=rel; if(!(rel<=rtol)){ nviol++; if(nviol<20) std::cout<<"VIOL "<<what<<" got="<<got<<" ref="<<ref<<" rel="<<rel<<"\n"; } };
  struct Unit{const char* name; double p, rs, visc;}; // to SI
  Unit units[]={{"METRIC",1e5,1.0,1e-3},{"FIELD",6894.757293168361, 28.316846592/0.158987294928*1.0 /*Mscf/stb*/, 1e-3},{"LAB",101325.0,1.0,1e-3}};
  for(int it=0;it<atoi(argv[2]);++it){
    const Unit& u=units[it%3];
    int nsat=2+rng()%5; std::vector<double> rs(nsat),ps(nsat),bs(nsat),ms(nsat); std::vector<std::vector<std::array<double,3>>> us(nsat);
    double r=U(0.0,5), p=U(5,50), b=U(1.01,1.1), m=U(1.0,2.0);
    std::ostringstream t; t.precision(12);
    t<<"RUNSPEC\nDIMENS\n 1 1 1 /\nOIL\nGAS\nWATER\nDISGAS\n"<<u.name<<"\nTABDIMS\n 1 1 20 20 /\nGRID\nDX\n 1 /\nDY\n 1 /\nDZ\n 1 /\nTOPS\n 1 /\nPORO\n 0.2 /\nPERMX\n 1 /\nPROPS\nDENSITY\n 800 1000 1 /\nPVTW\n 100 1.01 4e-5 0.5 0 /\nPVDG\n 1 1.0 0.01\n 500 0.005 0.03 /\nPVTO\n";
    for(int i=0;i<nsat;i++){ rs[i]=r; ps[i]=p; bs[i]=b; ms[i]=m; t<<" "<<r<<" "<<p<<" "<<b<<" "<<m<<"\n"; us[i].push_back({p,b,m});
      int nu=(i==nsat-1)?1+rng()%3:(rng()%3); double pu=p,bu=b,mu=m; for(int k=0;k<nu;k++){ pu+=U(10,100); bu*=U(0.97,0.999); mu*=U(1.01,1.2); t<<"      "<<pu<<" "<<bu<<" "<<mu<<"\n"; us[i].push_back({pu,bu,mu}); }
      t<<" /\n"; r+=U(5,60); p+=U(10,80); b+=U(0.02,0.2); m*=U(0.7,0.98); }
    t<<"/\nSOLUTION\nSCHEDULE\n";
    try{
      auto deck=parser.parseString(t.str()); EclipseState es(deck); Schedule sched(deck,es,python);
      LiveOilPvt<double> oil; oil.initFromState(es,sched);
      double T=300;
      for(int i=0;i<nsat;i++){
        double Rs=rs[i]*u.rs;
        for(auto& n: us[i]){ double P=n[0]*u.p; double B=1.0/oil.inverseFormationVolumeFactor(0,T,P,Rs); double mu=oil.viscosity(0,T,P,Rs);
          chk("B node",B,n[1],1e-9); chk("mu node",mu,n[2]*u.visc,1e-9); }
        double P=ps[i]*u.p; chk("Bsat node",1.0/oil.saturatedInverseFormationVolumeFactor(0,T,P),bs[i],1e-9); chk("musat node",oil.saturatedViscosity(0,T,P),ms[i]*u.visc,1e-9);
        chk("Rs node",oil.saturatedGasDissolutionFactor(0,T,P),Rs,1e-9);
        chk("psat inverse",oil.saturationPressure(0,T,Rs),P,1e-6);
        // between undersaturated nodes
        for(size_t k=0;k+1<us[i].size();k++){ double a=U(0.05,0.95); double Pm=(us[i][k][0]*(1-a)+us[i][k+1][0]*a)*u.p; double B=1.0/oil.inverseFormationVolumeFactor(0,T,Pm,Rs); nchk++; double lo=std::min(us[i][k][1],us[i][k+1][1]), hi=std::max(us[i][k][1],us[i][k+1][1]); if(!(B>=lo*(1-1e-12)&&B<=hi*(1+1e-12))){nviol++; std::cout<<"VIOL bracket B "<<B<<" ["<<lo<<","<<hi<<"]\n";}
           double mu=oil.viscosity(0,T,Pm,Rs)/u.visc; nchk++; lo=std::min(us[i][k][2],us[i][k+1][2]); hi=std::max(us[i][k][2],us[i][k+1][2]); if(!(mu>=lo*(1-1e-12)&&mu<=hi*(1+1e-12))){nviol++; std::cout<<"VIOL bracket mu "<<mu<<" ["<<lo<<","<<hi<<"]\n";} }
        // AD derivative vs FD along p (mid-cell)
        if(us[i].size()>1){ using E=DenseAd::Evaluation<double,2>; double Pm=0.5*(us[i][0][0]+us[i][1][0])*u.p; E Pe=E::createVariable(Pm,0), Re=E::createVariable(Rs*1.0,1), Te=E::createConstant(T);
          E ib=oil.inverseFormationVolumeFactor(0,Te,Pe,Re); double h=Pm*1e-6; double fd=(oil.inverseFormationVolumeFactor(0,T,Pm+h,Rs)-oil.inverseFormationVolumeFactor(0,T,Pm-h,Rs))/(2*h); chk("dinvB/dp",ib.derivative(0),fd,1e-5); }
      }
    }catch(const std::exception&e){ nviol++; std::cout<<"EXC "<<std::string(e.what()).substr(0,300)<<"\n"<<"\n"; }
  }
  std::cout<<"checks="<<nchk<<" viol="<<nviol<<" maxrel="<<maxrel<<"\n";
}
