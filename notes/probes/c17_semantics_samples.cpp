#include <iostream>
#include "ser_includes.hpp"
#include <opm/input/eclipse/Schedule/UDQ/UDQDefine.hpp>
#include <opm/input/eclipse/Schedule/UDQ/UDQContext.hpp>
#include <opm/input/eclipse/Schedule/UDQ/UDQFunctionTable.hpp>
#include <opm/input/eclipse/Schedule/UDQ/UDQParams.hpp>
#include <opm/input/eclipse/Schedule/UDQ/UDQState.hpp>
#include <opm/input/eclipse/Schedule/UDQ/UDQSet.hpp>
#include <opm/input/eclipse/Schedule/Well/WellMatcher.hpp>
#include <opm/input/eclipse/Schedule/Well/NameOrder.hpp>
using namespace Opm;
int main(){
  KeywordLocation location; UDQFunctionTable udqft; UDQParams udqp;
  SummaryState st(TimeService::now(), udqp.undefinedValue()); UDQState udq_state(udqp.undefinedValue());
  NameOrder wo{}; for(auto w:{"P1","P2","P3","P4"}) wo.add(w); WellMatcher wm(std::move(wo));
  UDQContext context(udqft, wm, {}, UDQContext::MatcherFactories{}, st, udq_state);
  double a[]={1,2,3,4}, b[]={10,20,30,40}; int i=0; for(auto w:{"P1","P2","P3","P4"}){ st.update_well_var(w,"WOPR",a[i]); if(i!=2) st.update_well_var(w,"WWPR",b[i]); i++; }
  st.update("FOPR",100);
  auto ev=[&](const std::string& name,std::vector<std::string> t){ try{ UDQDefine d(udqp,name,0,location,t); auto r=d.eval(context); for(auto&s:t)std::cout<<s<<" "; std::cout<<"=> "; for(size_t k=0;k<r.size();k++){ if(r[k].defined()) std::cout<<r[k].get()<<" "; else std::cout<<"undef "; } std::cout<<"\n"; }catch(const std::exception&e){ for(auto&s:t)std::cout<<s<<" "; std::cout<<"=> EXC "<<e.what()<<"\n"; } };
  ev("WU1",{"WOPR","+","WWPR"});            // undefined propagates at P3
  ev("WU1",{"WOPR","UADD","WWPR"});         // union: defined where either is
  ev("WU1",{"WOPR","*","2","+","1"});
  ev("WU1",{"WOPR",">","2"});
  ev("WU1",{"WOPR",">","2","*","1"});      // cmp lower than * : WOPR > (2*1)
  ev("WU1",{"WOPR","UMAX","WWPR"});
  ev("FU1",{"SUM","(","WOPR",")"});
  ev("FU1",{"SUM","(","WWPR",")"});         // sum over defined
  ev("FU1",{"AVEA","(","WWPR",")"});
  ev("FU1",{"MAX","(","WOPR",")","-","MIN","(","WOPR",")"});
  ev("FU1",{"NORM1","(","WOPR",")"});
  ev("FU1",{"NORM2","(","WOPR",")"});
  ev("FU1",{"NORMI","(","WOPR",")"});
  ev("FU1",{"PROD","(","WOPR",")"});
  ev("WU1",{"SORTA","(","WWPR",")"});
  ev("WU1",{"SORTD","(","WOPR",")"});
  ev("WU1",{"ABS","(","-","WOPR",")"});
  ev("WU1",{"DEF","(","WWPR",")"});
  ev("WU1",{"UNDEF","(","WWPR",")"});
  ev("WU1",{"IDV","(","WWPR",")"});
  ev("WU1",{"LN","(","WOPR",")"});
  ev("WU1",{"LOG","(","WOPR",")"});
  ev("WU1",{"NINT","(","WOPR","/","3",")"});
  ev("WU1",{"WOPR","-","FOPR"});            // scalar broadcast
  ev("WU1",{"FOPR","-","WOPR"});
  ev("WU1",{"WOPR","'P1'","+","WOPR"});
  ev("FU1",{"WOPR","'P2'","*","2"});
  ev("WU1",{"WOPR","/","(","WOPR","-","2",")"}); // division by zero at P2
  ev("FU1",{"10","-","2","*","3","+","4","/","2"});
  ev("FU1",{"AVEG","(","WOPR",")"});
  ev("FU1",{"AVEH","(","WOPR",")"});
  ev("WU1",{"WOPR","==","2","UADD","WWPR","!=","10"});
}
