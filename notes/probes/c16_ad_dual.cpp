#include <opm/material/densead/Evaluation.hpp>
#include <opm/material/densead/Math.hpp>
#include <iostream>
#include <random>
#include <vector>
#include <cmath>
#include <functional>
// Independent dual number
struct Dual { double v; std::vector<double> d; };
static Dual mk(double v,int n){ return {v,std::vector<double>(n,0.0)}; }
static Dual un(const Dual&a,double fv,double dfv){ Dual r{fv,a.d}; for(auto&x:r.d)x*=dfv; return r; }
static Dual add(const Dual&a,const Dual&b){ Dual r=a; r.v+=b.v; for(size_t i=0;i<r.d.size();i++) r.d[i]+=b.d[i]; return r; }
static Dual sub(const Dual&a,const Dual&b){ Dual r=a; r.v-=b.v; for(size_t i=0;i<r.d.size();i++) r.d[i]-=b.d[i]; return r; }
static Dual mul(const Dual&a,const Dual&b){ Dual r=a; r.v=a.v*b.v; for(size_t i=0;i<r.d.size();i++) r.d[i]=a.d[i]*b.v+a.v*b.d[i]; return r; }
static Dual dv(const Dual&a,const Dual&b){ Dual r=a; r.v=a.v/b.v; for(size_t i=0;i<r.d.size();i++) r.d[i]=(a.d[i]*b.v-a.v*b.d[i])/(b.v*b.v); return r; }
struct Node { int op; int a,b; double c; int var; };
std::mt19937_64 rng;
template<class E> E tanh_like(const E& x){ using namespace Opm; return x/(abs(x)+1.0); }
template<class E> E evalE(const std::vector<Node>& prog,const std::vector<E>& vars){
  std::vector<E> val; val.reserve(prog.size());
  for(const auto&n:prog){ using namespace Opm; 
    switch(n.op){
      case 0: val.push_back(vars[n.var]); break;
      case 1: { E c=vars[0]; c=n.c; val.push_back(c); break; }
      case 2: val.push_back(val[n.a]+val[n.b]); break;
      case 3: val.push_back(val[n.a]-val[n.b]); break;
      case 4: val.push_back(val[n.a]*val[n.b]); break;
      case 5: val.push_back(val[n.a]/val[n.b]); break;
      case 6: val.push_back(-val[n.a]); break;
      case 7: val.push_back(sqrt(val[n.a]*val[n.a]+1.0)); break;
      case 8: val.push_back(exp(val[n.a]*0.01)); break;
      case 9: val.push_back(log(val[n.a]*val[n.a]+1.5)); break;
      case 10: val.push_back(sin(val[n.a])); break;
      case 11: val.push_back(cos(val[n.a])); break;
      case 12: val.push_back(atan(val[n.a])); break;
      case 13: val.push_back(val[n.a]*n.c); break;
      case 14: val.push_back(n.c+val[n.a]); break;
      case 15: val.push_back(pow(val[n.a]*val[n.a]+1.0, n.c)); break;
      case 16: { E t=val[n.a]; t*=val[n.b]; val.push_back(t); break; }
      case 17: { E t=val[n.a]; t/= (val[n.b]*val[n.b]+2.0); val.push_back(t); break; }
      case 18: val.push_back(tanh_like(val[n.a])); break;
    }
  }
  return val.back();
}
static Dual evalD(const std::vector<Node>& prog,const std::vector<Dual>& vars,int nv){
  std::vector<Dual> val;
  for(const auto&n:prog){
    switch(n.op){
      case 0: val.push_back(vars[n.var]); break;
      case 1: val.push_back(mk(n.c,nv)); break;
      case 2: val.push_back(add(val[n.a],val[n.b])); break;
      case 3: val.push_back(sub(val[n.a],val[n.b])); break;
      case 4: val.push_back(mul(val[n.a],val[n.b])); break;
      case 5: val.push_back(dv(val[n.a],val[n.b])); break;
      case 6: val.push_back(un(val[n.a],-val[n.a].v,-1)); break;
      case 7: { Dual s=add(mul(val[n.a],val[n.a]),mk(1.0,nv)); val.push_back(un(s,std::sqrt(s.v),0.5/std::sqrt(s.v))); break; }
      case 8: { Dual s=mul(val[n.a],mk(0.01,nv)); val.push_back(un(s,std::exp(s.v),std::exp(s.v))); break; }
      case 9: { Dual s=add(mul(val[n.a],val[n.a]),mk(1.5,nv)); val.push_back(un(s,std::log(s.v),1/s.v)); break; }
      case 10: val.push_back(un(val[n.a],std::sin(val[n.a].v),std::cos(val[n.a].v))); break;
      case 11: val.push_back(un(val[n.a],std::cos(val[n.a].v),-std::sin(val[n.a].v))); break;
      case 12: val.push_back(un(val[n.a],std::atan(val[n.a].v),1/(1+val[n.a].v*val[n.a].v))); break;
      case 13: val.push_back(mul(val[n.a],mk(n.c,nv))); break;
      case 14: val.push_back(add(mk(n.c,nv),val[n.a])); break;
      case 15: { Dual s=add(mul(val[n.a],val[n.a]),mk(1.0,nv)); val.push_back(un(s,std::pow(s.v,n.c),n.c*std::pow(s.v,n.c-1))); break; }
      case 16: val.push_back(mul(val[n.a],val[n.b])); break;
      case 17: val.push_back(dv(val[n.a],add(mul(val[n.b],val[n.b]),mk(2.0,nv)))); break;
      case 18: { const Dual&x=val[n.a]; Dual ax=un(x,std::fabs(x.v),x.v<0?-1:1); val.push_back(dv(x,add(ax,mk(1.0,nv)))); break; }
    }
  }
  return val.back();
}
long nchk=0,nviol=0;
template<int N> void runN(int cases){
  using E=Opm::DenseAd::Evaluation<double,N>;
  for(int c=0;c<cases;c++){
    int nvars=N; std::vector<E> ve; std::vector<Dual> vd;
    for(int i=0;i<nvars;i++){ double x=std::uniform_real_distribution<double>(-3,3)(rng); E e=E::createVariable(x,i); ve.push_back(e); Dual d=mk(x,N); d.d[i]=1; vd.push_back(d); }
    std::vector<Node> prog; int len=3+rng()%12;
    for(int i=0;i<nvars;i++) prog.push_back({0,0,0,0,i});
    for(int i=0;i<len;i++){ int sz=prog.size(); int op=2+rng()%17; if(op==5){ /* safe division: divide by (b*b+2) via op17 */ op=17; } prog.push_back({op,(int)(rng()%sz),(int)(rng()%sz),std::uniform_real_distribution<double>(0.5,2.5)(rng),0}); }
    E re=evalE<E>(prog,ve); Dual rd=evalD(prog,vd,N);
    auto close=[&](double a,double b){ return std::fabs(a-b)<=1e-11*std::max({1.0,std::fabs(a),std::fabs(b)}) || (std::isnan(a)&&std::isnan(b)) || (std::isinf(a)&&a==b); };
    nchk++; bool ok=close(re.value(),rd.v); for(int i=0;i<N;i++) ok=ok&&close(re.derivative(i),rd.d[i]);
    if(!ok){ nviol++; if(nviol<5){ std::cout<<"VIOL N="<<N<<" val "<<re.value()<<" vs "<<rd.v<<"\n"; for(int i=0;i<N;i++) std::cout<<"  d"<<i<<" "<<re.derivative(i)<<" vs "<<rd.d[i]<<"\n"; } }
  }
}
int main(int argc,char**argv){ rng.seed(atoi(argv[1])); int n=atoi(argv[2]);
  runN<1>(n);runN<2>(n);runN<3>(n);runN<4>(n);runN<5>(n);runN<6>(n);runN<7>(n);runN<8>(n);runN<9>(n);runN<10>(n);runN<11>(n);runN<12>(n);runN<13>(n);runN<16>(n);
  std::cout<<"checks="<<nchk<<" viol="<<nviol<<"\n"; }
