#include <opm/input/eclipse/Parser/Parser.hpp>
#include <opm/input/eclipse/Deck/Deck.hpp>
#include <opm/input/eclipse/EclipseState/EclipseState.hpp>
#include <opm/input/eclipse/EclipseState/Grid/FieldPropsManager.hpp>
#include <opm/input/eclipse/EclipseState/Grid/EclipseGrid.hpp>
#include <iostream>
#include <sstream>
#include <random>
#include <map>
#include <cmath>
#include <optional>
using namespace Opm;
struct RefArr { std::vector<double> v; std::vector<bool> set; };
int main(int argc,char**argv){
  std::mt19937_64 rng(atoi(argv[1])); auto U=[&](double a,double b){return std::uniform_real_distribution<double>(a,b)(rng);};
  Parser parser; long nchk=0,nviol=0,ncase=0,nexc=0;
  for(int it=0;it<atoi(argv[2]);++it){
    int nx=1+rng()%5, ny=1+rng()%5, nz=1+rng()%5; int N=nx*ny*nz;
    std::vector<int> act(N); for(auto&a:act) a=(rng()%4)?1:0; if(rng()%4==0) for(auto&a:act)a=1; { bool any=false; for(int a:act) any|=a; if(!any) act[0]=1; }
    // arrays: GRID: PORO PERMX PERMY NTG(default 1) ; REGIONS: SATNUM FIPNUM (int default 1)
    std::map<std::string,RefArr> ref; const char* dbl[]={"PORO","PERMX","PERMY","PERMZ","NTG"}; 
    std::ostringstream s; s.precision(12);
    s<<"RUNSPEC\nDIMENS\n "<<nx<<" "<<ny<<" "<<nz<<" /\nOIL\nWATER\nTABDIMS\n 9 9 /\nREGDIMS\n 9 /\nGRID\nDX\n "<<N<<"*10 /\nDY\n "<<N<<"*10 /\nDZ\n "<<N<<"*2 /\nTOPS\n "<<nx*ny<<"*1000 /\nACTNUM\n"; for(int a:act) s<<" "<<a; s<<" /\n";
    int bi1=0,bi2=nx-1,bj1=0,bj2=ny-1,bk1=0,bk2=nz-1; // current BOX
    auto cellsInBox=[&](int i1,int i2,int j1,int j2,int k1,int k2){ std::vector<int> c; for(int k=k1;k<=k2;k++)for(int j=j1;j<=j2;j++)for(int i=i1;i<=i2;i++) c.push_back(i+nx*(j+ny*k)); return c; };
    auto randBox=[&](int&i1,int&i2,int&j1,int&j2,int&k1,int&k2){ i1=rng()%nx; i2=i1+rng()%(nx-i1); j1=rng()%ny; j2=j1+rng()%(ny-j1); k1=rng()%nz; k2=k1+rng()%(nz-k1); };
    // initial full assignments
    for(auto k: {"PORO","PERMX"}){ s<<k<<"\n"; RefArr a; a.v.resize(N); a.set.assign(N,true); for(int c=0;c<N;c++){ a.v[c]= std::string(k)=="PORO"? std::round(U(0.05,0.35)*1000)/1000 : std::round(U(1,1000)); s<<" "<<a.v[c]; } s<<" /\n"; ref[k]=a; }
    
    std::vector<std::string> oplog;
    int nops=1+rng()%12;
    for(int o=0;o<nops;o++){
      int kind=rng()%8; std::ostringstream os; os.precision(12);
      std::vector<std::string> defined; for(auto&[k,a]:ref){ bool all=true; for(bool b:a.set) all=all&&b; if(all) defined.push_back(k); }
      if(kind==0){ randBox(bi1,bi2,bj1,bj2,bk1,bk2); os<<"BOX\n "<<bi1+1<<" "<<bi2+1<<" "<<bj1+1<<" "<<bj2+1<<" "<<bk1+1<<" "<<bk2+1<<" /\n"; }
      else if(kind==1){ bi1=0;bi2=nx-1;bj1=0;bj2=ny-1;bk1=0;bk2=nz-1; os<<"ENDBOX\n"; }
      else if(kind==2){ // direct assignment in current box
        std::string k=dbl[rng()%5]; auto cells=cellsInBox(bi1,bi2,bj1,bj2,bk1,bk2); os<<k<<"\n"; auto& a=ref[k]; if(a.v.empty()){a.v.assign(N,0); a.set.assign(N,false);} for(int c:cells){ double v=std::round(U(0.1,0.9)*100)/100; os<<" "<<v; a.v[c]=v; a.set[c]=true; } os<<" /\n"; }
      else { // EQUALS/ADD/MULTIPLY/MINVALUE/MAXVALUE/COPY with optional per-record box
        const char* names[]={"EQUALS","ADD","MULTIPLY","MINVALUE","MAXVALUE","COPY"}; int w=kind-3+ (kind==7? (rng()%2):0); if(kind==3) w=0; if(kind==4) w=1; if(kind==5) w=2; if(kind==6) w=3+rng()%2; if(kind==7) w=5;
        os<<names[w]<<"\n"; int nrec=1+rng()%3; int ci1=bi1,ci2=bi2,cj1=bj1,cj2=bj2,ck1=bk1,ck2=bk2;
        for(int r=0;r<nrec;r++){
          bool own=rng()%2; if(own) randBox(ci1,ci2,cj1,cj2,ck1,ck2); int i1=ci1,i2=ci2,j1=cj1,j2=cj2,k1=ck1,k2=ck2; auto cells=cellsInBox(i1,i2,j1,j2,k1,k2);
          std::string boxs; if(own){ std::ostringstream b; b<<" "<<i1+1<<" "<<i2+1<<" "<<j1+1<<" "<<j2+1<<" "<<k1+1<<" "<<k2+1; boxs=b.str(); }
          if(w==5){ if(defined.empty()) continue; std::string src=defined[rng()%defined.size()]; std::string dst=dbl[rng()%5]; if(dst==src) continue; { bool sp=src.substr(0,4)=="PERM", dp=dst.substr(0,4)=="PERM"; if(sp!=dp) continue; } auto& d=ref[dst]; if(d.v.empty()){d.v.assign(N,0); d.set.assign(N,false);} for(int c:cells){ d.v[c]=ref[src].v[c]; d.set[c]=true; } os<<" "<<src<<" "<<dst<<boxs<<" /\n"; }
          else { std::string k; if(w==0) k=dbl[rng()%5]; else { if(defined.empty()) continue; k=defined[rng()%defined.size()]; }
            double v=std::round(U(0.1,2.0)*100)/100; auto& a=ref[k]; if(a.v.empty()){a.v.assign(N,0); a.set.assign(N,false);} 
            for(int c:cells){ if(w==0){a.v[c]=v; a.set[c]=true;} else if(w==1) a.v[c]+=v; else if(w==2) a.v[c]*=v; else if(w==3) a.v[c]=std::max(a.v[c],v); else a.v[c]=std::min(a.v[c],v); }
            os<<" "<<k<<" "<<v<<boxs<<" /\n"; }
        }
        os<<"/\n";
      }
      s<<os.str(); oplog.push_back(os.str());
    }
    s<<"PROPS\nREGIONS\nSOLUTION\nSCHEDULE\n";
    // PERMY/PERMZ/PORO must be fully defined for EclipseState? only check arrays fully set
    try{
      auto deck=parser.parseString(s.str()); EclipseState es(deck); const auto& fp=es.fieldProps(); const auto& grid=es.getInputGrid(); ncase++;
      const double mD=9.869232667160130e-16;
      for(auto&[k,a]:ref){ bool allact=true; for(int c=0;c<N;c++) if(act[c]&&!a.set[c]) allact=false; if(!allact) continue; if(!fp.has_double(k)&&k!="NTG") { continue; }
        const auto& got=fp.get_double(k); double f=(k.substr(0,4)=="PERM")?mD:1.0; size_t ai=0;
        for(int c=0;c<N;c++){ if(!act[c]) continue; nchk++; double refv=a.v[c]*f; if(std::fabs(got[ai]-refv)>1e-9*std::max(std::fabs(refv),1e-30)){ nviol++; if(nviol<8){ std::cout<<"VIOL case="<<it<<" "<<k<<" cell "<<c<<" got "<<got[ai]/f<<" ref "<<a.v[c]<<" dims "<<nx<<"x"<<ny<<"x"<<nz<<"\n"; for(auto&l:oplog) std::cout<<l; } } ai++; } }
    }catch(const std::exception&e){ nexc++; if(nexc<6) std::cout<<"EXC case "<<it<<": "<<std::string(e.what()).substr(0,200)<<"\n"; }
  }
  std::cout<<"cases="<<ncase<<" exc="<<nexc<<" checks="<<nchk<<" viol="<<nviol<<"\n";
}
