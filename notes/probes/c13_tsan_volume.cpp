#include <opm/input/eclipse/Parser/Parser.hpp>
#include <opm/input/eclipse/Deck/Deck.hpp>
#include <opm/input/eclipse/EclipseState/Grid/EclipseGrid.hpp>
#include <iostream>
#include <sstream>
#include <random>
using namespace Opm;
int main(int argc,char**argv){
  std::mt19937_64 rng(atoi(argv[1])); Parser parser; double total=0; int n=0;
  for(int it=0;it<atoi(argv[2]);++it){
    int nx=2+rng()%8, ny=2+rng()%8, nz=2+rng()%8; std::ostringstream s;
    s<<"RUNSPEC\nDIMENS\n "<<nx<<" "<<ny<<" "<<nz<<" /\nGRID\nDXV\n"; for(int i=0;i<nx;i++) s<<" "<<10+rng()%90; s<<" /\nDYV\n"; for(int i=0;i<ny;i++) s<<" "<<10+rng()%90; s<<" /\nDZV\n"; for(int i=0;i<nz;i++) s<<" "<<1+rng()%9; s<<" /\nTOPS\n "<<nx*ny<<"*1000 /\nACTNUM\n"; for(int i=0;i<nx*ny*nz;i++) s<<" "<<(rng()%4?1:0); s<<" /\n";
    auto deck=parser.parseString(s.str()); EclipseGrid grid(deck);
    const auto& v=grid.activeVolume(); double sum=0; for(double x:v) sum+=x; total+=sum; n+=v.size();
    for(size_t a=0;a<grid.getNumActive();a+=3){ auto g=grid.getGlobalIndex(a); if(grid.getCellVolume(g)!=v[a]) std::cout<<"MISMATCH\n"; }
  }
  std::cout<<"cells="<<n<<" total="<<total<<"\n";
}
