#include <opm/io/eclipse/OutputStream.hpp>
#include <opm/io/eclipse/ERst.hpp>
#include <filesystem>
#include <fstream>
#include <iostream>
#include <iterator>
#include <random>
#include <map>
using namespace Opm::EclIO; using namespace Opm::EclIO::OutputStream;
static std::string slurp(const std::string& f){ std::ifstream i(f, std::ios::binary); return std::string(std::istreambuf_iterator<char>(i), {}); }
int main(int argc,char**argv){ std::mt19937_64 rng(atoi(argv[1])); long nchk=0,nviol=0,nexc=0,nok=0;
  std::string dir="/tmp/exp/tr"; std::filesystem::remove_all(dir); std::filesystem::create_directories(dir);
  std::map<int,std::vector<int>> ih; std::map<int,std::vector<float>> pr; std::map<int,std::vector<double>> xw; std::map<int,std::vector<std::string>> zw; std::map<int,std::vector<bool>> lg;
  for(int s: {1,2,4}){ ResultSet rset{dir,"T"}; Restart rst(rset,s,Formatted{false},Unified{true}); ih[s].assign(7,s*11); for(auto&x:ih[s]) x+=rng()%5; pr[s].resize(1003); for(auto&x:pr[s]) x=(float)(rng()%100000)/7.0f; xw[s].resize(5); for(auto&x:xw[s]) x=(double)(rng()%100000)/3.0; zw[s]={"W1","WELLTWO",""}; lg[s]={true,false,true,true};
    rst.write("INTEHEAD",ih[s]); rst.write("LOGIHEAD",lg[s]); rst.write("PRESSURE",pr[s]); rst.write("XWEL",xw[s]); rst.write("ZWEL",zw[s]); }
  std::string full=slurp(dir+"/T.UNRST"); std::cout<<"file size "<<full.size()<<"\n";
  for(size_t cut=0; cut<=full.size(); cut++){
    std::string fn=dir+"/C.UNRST"; { std::ofstream o(fn,std::ios::binary|std::ios::trunc); o.write(full.data(),cut); }
    try{ ERst r(fn); auto steps=r.listOfReportStepNumbers();
      for(int s: steps){ nchk++; if(!ih.count(s)){ nviol++; std::cout<<"VIOL phantom step "<<s<<" cut="<<cut<<"\n"; continue; }
        auto arrs=r.listOfRstArrays(s);
        for(auto& a: arrs){ const std::string& nm=std::get<0>(a); try{
            if(nm=="INTEHEAD"){ nchk++; if(r.getRestartData<int>(nm,s,0)!=ih[s]){nviol++; if(nviol<20) std::cout<<"VIOL wrong INTEHEAD step "<<s<<" cut="<<cut<<"\n";} else nok++; }
            else if(nm=="PRESSURE"){ nchk++; if(r.getRestartData<float>(nm,s,0)!=pr[s]){nviol++; if(nviol<20) std::cout<<"VIOL wrong PRESSURE step "<<s<<" cut="<<cut<<" size="<<r.getRestartData<float>(nm,s,0).size()<<"\n";} else nok++; }
            else if(nm=="XWEL"){ nchk++; if(r.getRestartData<double>(nm,s,0)!=xw[s]){nviol++; if(nviol<20) std::cout<<"VIOL wrong XWEL step "<<s<<" cut="<<cut<<"\n";} else nok++; }
            else if(nm=="ZWEL"){ nchk++; if(r.getRestartData<std::string>(nm,s,0)!=zw[s]){nviol++; if(nviol<20) std::cout<<"VIOL wrong ZWEL step "<<s<<" cut="<<cut<<"\n";} else nok++; }
            else if(nm=="LOGIHEAD"){ nchk++; if(r.getRestartData<bool>(nm,s,0)!=lg[s]){nviol++; if(nviol<20) std::cout<<"VIOL wrong LOGIHEAD step "<<s<<" cut="<<cut<<"\n";} else nok++; }
          }catch(const std::exception&){ nexc++; } }
      }
    }catch(const std::exception&){ nexc++; }
  }
  std::cout<<"cuts="<<full.size()+1<<" checks="<<nchk<<" exact="<<nok<<" errors="<<nexc<<" viol="<<nviol<<"\n"; }
