#include <opm/input/eclipse/Parser/Parser.hpp>
#include <opm/input/eclipse/Parser/ParserKeyword.hpp>
#include <opm/input/eclipse/Parser/ParserRecord.hpp>
#include <opm/input/eclipse/Parser/ParserItem.hpp>
#include <opm/input/eclipse/Parser/ParserEnums.hpp>
#include <opm/input/eclipse/Parser/ParseContext.hpp>
#include <opm/input/eclipse/Parser/ErrorGuard.hpp>
#include <opm/input/eclipse/Parser/InputErrorAction.hpp>
#include <opm/input/eclipse/Deck/Deck.hpp>
#include <opm/input/eclipse/Deck/DeckKeyword.hpp>
#include <opm/input/eclipse/Deck/DeckRecord.hpp>
#include <opm/input/eclipse/Deck/DeckItem.hpp>
#include <opm/input/eclipse/Deck/UDAValue.hpp>
#include <opm/input/eclipse/Utility/Typetools.hpp>
#include <iostream>
#include <sstream>
#include <cstring>
#include <random>
#include <map>
using namespace Opm;
static std::string dumpItem(const DeckItem& it){
  std::ostringstream o; o<<it.name()<<":"<<int(it.getType())<<":"<<it.data_size()<<"[";
  for(size_t i=0;i<it.data_size();++i){
    o<<(it.defaultApplied(i)?"D":"V")<<(it.hasValue(i)?"":"!"); if(!it.hasValue(i)){o<<",";continue;}
    switch(it.getType()){
      case type_tag::integer: o<<it.get<int>(i); break;
      case type_tag::fdouble: { double d=it.get<double>(i); uint64_t b; memcpy(&b,&d,8); o<<std::hex<<b<<std::dec; break;}
      case type_tag::string: o<<"'"<<it.get<std::string>(i)<<"'"; break;
      case type_tag::raw_string: o<<"r'"<<it.get<RawString>(i)<<"'"; break;
      case type_tag::uda: { auto u=it.get<UDAValue>(i); if(u.is<double>()){double d=u.get<double>(); uint64_t b; memcpy(&b,&d,8); o<<"u"<<std::hex<<b<<std::dec;} else if(u.is<std::string>()) o<<"u'"<<u.get<std::string>()<<"'"; else o<<"u-none"; break;}
      default: o<<"?"; }
    o<<","; }
  o<<"]"; return o.str(); }
static std::string dumpDeck(const Deck& d){ std::ostringstream o; for (const auto& kw : d){ o<<kw.name()<<"{"; for (const auto& rec : kw){ o<<"("; for (const auto& it : rec){ o<<dumpItem(it); if(it.getType()==type_tag::fdouble){ try{ const auto& si=it.getSIDoubleData(); o<<"SI["; for(double v: si){ uint64_t b; memcpy(&b,&v,8); o<<std::hex<<b<<std::dec<<","; } o<<"]"; }catch(...){ o<<"SI-none"; } } o<<";"; } o<<")"; } o<<"}\n"; } return o.str(); }
std::mt19937_64 rng;
struct Tok{ std::string text; bool isDefault=false; bool single=true; bool alpha=false; };
using Rec=std::vector<Tok>;
static Tok genValue(const ParserItem& it){ std::ostringstream o; o.precision(8); Tok t;
  switch(it.dataType()){ case type_tag::integer: o<<(1+rng()%5); break; case type_tag::fdouble: { const char* f[]={"1.5","2.25e1","0.5D0","7","-3.125","1.0E-3"}; o<<f[rng()%6]; break;} case type_tag::string: if(rng()%2){ o<<"'S"<<rng()%10<<" x'"; t.alpha=true; } else o<<"'S"<<rng()%10<<"'"; break; case type_tag::raw_string: o<<"R"<<rng()%10; t.alpha=true; break; case type_tag::uda: o<<(1.5+(rng()%100)); break; default: o<<"1"; }
  t.text=o.str(); return t; }
static Rec genRecord(const ParserRecord& rec){ Rec r; for(const auto& it: rec){ if(it.sizeType()==ParserItem::item_size::ALL){ int n=1+rng()%5; Tok v=genValue(it); for(int i=0;i<n;i++){ Tok t= (rng()%3)?v:genValue(it); t.single=false; r.push_back(t);} } else { if(rng()%3==0){ Tok t; t.text="1*"; t.isDefault=true; r.push_back(t);} else r.push_back(genValue(it)); } } return r; }
static std::string renderCanon(const std::vector<Rec>& recs){ std::string s; for(auto&r:recs){ s+=" "; for(auto&t:r) s+=t.text+" "; s+="/\n"; } return s; }
static std::string renderVariant(const std::vector<Rec>& recs, bool raw, int& nrules){ std::string s;
  for(auto r: recs){
    if(!raw){
      // R8a: drop trailing defaults of SINGLE items
      if(rng()%2){ while(r.size()>1 && r.back().isDefault && r.back().single){ r.pop_back(); nrules++; } }
      // R8b: merge runs of identical tokens to n*v, runs of defaults to n*
      std::vector<Tok> m; for(size_t i=0;i<r.size();){ size_t j=i; while(j<r.size() && r[j].text==r[i].text && r[j].isDefault==r[i].isDefault) j++; size_t n=j-i; if(n>1 && rng()%2 && !r[i].alpha){ Tok t=r[i]; if(r[i].isDefault) t.text=std::to_string(n)+"*"; else t.text=std::to_string(n)+"*"+r[i].text; m.push_back(t); nrules++; } else for(size_t k=i;k<j;k++) m.push_back(r[k]); i=j; } r=m;
    }
    s+= (rng()%2)?"   ":"\t";
    for(size_t i=0;i<r.size();i++){ s+=r[i].text; 
      // R5: line break between items, but never before alpha token; R1 comment
      if(!raw && i+1<r.size() && !r[i+1].alpha && rng()%4==0){ if(rng()%2) s+="  -- it's a / comment"; s+="\n"; if(rng()%3==0) s+="\n-- full 'comment\n"; s+="  "; nrules++; } else s+= (rng()%3?" ":"\t  "); }
    s+="/"; if(rng()%3==0){ s+=" trailing text 42 * here"; nrules++; } if(rng()%3==0) s+="  -- c"; s+="\n"; if(rng()%4==0) s+="\n"; }
  return s; }
int main(int argc,char**argv){ rng.seed(atoi(argv[1])); int reps=atoi(argv[2]);
  Parser p; ParseContext pc; ErrorGuard eg; // strict (default) context
  std::map<std::string,int> stat; long nviol=0, ncmp=0, nrulesTot=0;
  for(int rep=0;rep<reps;rep++) for(const auto& name: p.getAllDeckNames()){
    if(!p.isRecognizedKeyword(name)) continue; const auto& kw=p.getParserKeywordFromDeckName(name); auto st=kw.getSizeType(); size_t nrec=std::distance(kw.begin(),kw.end()); if(nrec==0||kw.isCodeKeyword()) continue;
    if(name=="TITLE"||name=="INCLUDE"||name=="PATHS"||name=="END"||name=="ENDINC"||name=="SKIP"||name=="SKIP100"||name=="SKIP300"||name=="ENDSKIP"||name=="IMPORT"||name=="PYINPUT") continue;
    std::vector<Rec> recs; bool endslash=false; std::string cls;
    if(st==FIXED||st==SPECIAL_CASE_ROCK){ cls="fixed"; size_t n= st==SPECIAL_CASE_ROCK?1:kw.getFixedSize(); for(size_t r=0;r<n;r++) recs.push_back(genRecord(kw.getRecord(std::min(r,nrec-1)))); }
    else if(st==SLASH_TERMINATED){ cls="slash"; int n=1+rng()%3; if(kw.isAlternatingKeyword()){ for(int r=0;r<n*(int)nrec;r++) recs.push_back(genRecord(kw.getRecord(r%nrec))); } else if(nrec>1&&!kw.isDoubleRecordKeyword()){ for(size_t r=0;r<nrec;r++) recs.push_back(genRecord(kw.getRecord(r))); } else for(int r=0;r<n;r++) recs.push_back(genRecord(kw.getRecord(0))); endslash=true; }
    else if(st==UNKNOWN){ cls="unknown"; int n=1+rng()%3; for(int r=0;r<n;r++) recs.push_back(genRecord(kw.getRecord(0))); endslash=true; }
    else continue;
    // avoid all-default records (known C19/C01-adjacent issue is about printing only; parsing " 1* /" is fine)
    bool raw=kw.rawStringKeyword();
    std::string base=name+"\n"+renderCanon(recs)+(endslash?"/\n":"");
    int nr=0; std::string nm=name; if(rng()%2){ for(auto&c:nm) c=tolower(c); nr++; }
    std::string var= (rng()%2?"  ":"")+nm+((rng()%3==0)?"   -- kw comment":"")+"\n"+(rng()%3==0?"\n-- cmt\n":"")+renderVariant(recs,raw,nr)+(endslash?std::string("/")+(rng()%2?" end of kw":"")+"\n":"");
    Deck d1; try{ d1=p.parseString(base,pc,eg); }catch(const std::exception&){ stat[cls+":base-exc"]++; continue; }
    if(d1.size()!=1){ stat[cls+":nkw!=1"]++; continue; }
    try{ auto d2=p.parseString(var,pc,eg); ncmp++; nrulesTot+=nr; if(dumpDeck(d1)!=dumpDeck(d2)){ nviol++; stat[cls+":DIFF"]++; if(nviol<6) std::cout<<"DIFF "<<name<<"\n--base:\n"<<base<<"--variant:\n"<<var<<"--A:"<<dumpDeck(d1)<<"--B:"<<dumpDeck(d2)<<"\n"; } else stat[cls+":ok"]++; }
    catch(const std::exception&e){ nviol++; stat[cls+":VARIANT-EXC"]++; if(nviol<6) std::cout<<"VARIANT-EXC "<<name<<": "<<std::string(e.what()).substr(0,200)<<"\n--base:\n"<<base<<"--variant:\n"<<var<<"\n"; }
  }
  std::cout<<"compared="<<ncmp<<" rules="<<nrulesTot<<" viol="<<nviol<<"\n"; for(auto&[k,v]:stat) std::cout<<"  "<<k<<" = "<<v<<"\n"; }
