#include <opm/input/eclipse/Parser/Parser.hpp>
#include <opm/input/eclipse/Parser/ParseContext.hpp>
#include <opm/input/eclipse/Parser/ErrorGuard.hpp>
#include <opm/input/eclipse/Parser/InputErrorAction.hpp>
#include <opm/input/eclipse/Deck/Deck.hpp>
#include <opm/input/eclipse/Deck/DeckKeyword.hpp>
#include <opm/input/eclipse/Deck/DeckRecord.hpp>
#include <opm/input/eclipse/Deck/DeckItem.hpp>
#include <opm/input/eclipse/Deck/UDAValue.hpp>
#include <opm/input/eclipse/Utility/Typetools.hpp>
#include <opm/common/OpmLog/KeywordLocation.hpp>
#include <iostream>
#include <fstream>
#include <sstream>
#include <cstring>
#include <random>
#include <set>
#include <filesystem>
using namespace Opm;
static std::string dumpItem(const DeckItem& it){
  std::ostringstream o; o<<it.name()<<":"<<int(it.getType())<<":"<<it.data_size()<<"[";
  for(size_t i=0;i<it.data_size();++i){
    o<<(it.defaultApplied(i)?"D":"V")<<(it.hasValue(i)?"":"!");
    if(!it.hasValue(i)){o<<",";continue;}
    switch(it.getType()){
      case type_tag::integer: o<<it.get<int>(i); break;
      case type_tag::fdouble: { double d=it.get<double>(i); uint64_t b; memcpy(&b,&d,8); o<<std::hex<<b<<std::dec; break;}
      case type_tag::string: o<<"'"<<it.get<std::string>(i)<<"'"; break;
      case type_tag::raw_string: o<<"r'"<<it.get<RawString>(i)<<"'"; break;
      case type_tag::uda: { auto u=it.get<UDAValue>(i); if(u.is<double>()){double d=u.get<double>(); uint64_t b; memcpy(&b,&d,8); o<<"u"<<std::hex<<b<<std::dec;} else if(u.is<std::string>()) o<<"u'"<<u.get<std::string>()<<"'"; else o<<"u-none"; break;}
      default: o<<"?";
    }
    o<<",";
  }
  o<<"]"; return o.str();
}
static std::string dumpDeck(const Deck& d){
  std::ostringstream o;
  for (const auto& kw : d){ o<<kw.name()<<"{";
    for (const auto& rec : kw){ o<<"("; for (const auto& it : rec) o<<dumpItem(it)<<";"; o<<")"; }
    o<<"}\n"; }
  return o.str();
}
int main(int argc,char**argv){
  ParseContext pc; pc.update(InputErrorAction::IGNORE); ErrorGuard eg;
  Parser p; unsigned seed=atoi(argv[1]);
  for(int a=2;a<argc;a++){
    try{
    std::filesystem::path src=std::filesystem::canonical(argv[a]);
    auto d1=p.parseFile(src.string(),pc,eg);
    std::set<size_t> kwlines; bool hasTitle=false; std::set<size_t> titleLines;
    for(const auto& kw: d1){ const auto& loc=kw.location(); if(std::filesystem::path(loc.filename)==src){ kwlines.insert(loc.lineno); if(kw.name()=="TITLE") titleLines.insert(loc.lineno);} }
    std::ifstream in(src); std::string line; std::vector<std::string> lines; while(std::getline(in,line)) lines.push_back(line);
    std::mt19937 rng(seed); auto coin=[&](int n){return (rng()%n)==0;};
    std::ostringstream out; bool afterTitle=false; bool code=false;
    for(size_t i=0;i<lines.size();++i){
      std::string l=lines[i]; size_t ln=i+1;
      if(!l.empty()&&l.back()=='\r') l.pop_back();
      std::string t=l; 
      bool isKw=kwlines.count(ln);
      if(afterTitle){ out<<l<<"\n"; if(l.find_first_not_of(" \t")!=std::string::npos) afterTitle=false; continue; }
      if(isKw){
        // lowercase first token
        size_t b=l.find_first_not_of(" \t"); size_t e=l.find_first_of(" \t",b); if(e==std::string::npos)e=l.size();
        if(coin(2)) for(size_t k=b;k<e;k++) l[k]=tolower(l[k]);
        if(titleLines.count(ln)) afterTitle=true;
      }
      bool hasQuote = l.find('\'')!=std::string::npos || l.find('"')!=std::string::npos;
      bool hasComment = l.find("--")!=std::string::npos;
      if(!hasQuote && !hasComment && !afterTitle){
        // whitespace mutate
        std::string m; for(char c: l){ if(c==' '&&coin(3)) m+= coin(2)?"\t":"  "; else m+=c; } l=m;
        if(coin(3)) l="   "+l;
        if(coin(3)) l+="   -- c'omment / here";
      }
      if(coin(4)&&!afterTitle) out<<"\n";
      if(coin(5)&&!afterTitle) out<<"-- full line comment / 'x\n";
      out<<l<<"\n";
    }
    auto vpath=src.parent_path()/("__VARIANT_"+src.filename().string());
    { std::ofstream o(vpath); o<<out.str(); }
    Deck d2; 
    try { d2=p.parseFile(vpath.string(),pc,eg);} catch(const std::exception&e){ std::cout<<argv[a]<<" VARIANT-EXC "<<e.what()<<"\n"; std::filesystem::remove(vpath); continue;}
    std::filesystem::remove(vpath);
    auto A=dumpDeck(d1), B=dumpDeck(d2);
    std::cout<<argv[a]<<" kws="<<d1.size()<<" v="<<d2.size()<<" dumpEq="<<(A==B)<<"\n";
    if(A!=B){ std::istringstream ia(A), ib(B); std::string la,lb; int n=0; while(std::getline(ia,la)&&std::getline(ib,lb)){ if(la!=lb){ std::cout<<"  A:"<<la.substr(0,200)<<"\n  B:"<<lb.substr(0,200)<<"\n"; if(++n>=2)break;} } }
    }catch(const std::exception&e){ std::cout<<argv[a]<<" EXC "<<e.what()<<"\n"; }
  }
}
