#include <opm/input/eclipse/Parser/Parser.hpp>
#include <opm/input/eclipse/Parser/ParserKeyword.hpp>
#include <opm/input/eclipse/Parser/ParserRecord.hpp>
#include <opm/input/eclipse/Parser/ParserItem.hpp>
#include <opm/input/eclipse/Parser/ParserEnums.hpp>
#include <opm/input/eclipse/Parser/ParseContext.hpp>
#include <opm/input/eclipse/Parser/ErrorGuard.hpp>
#include <opm/input/eclipse/Parser/InputErrorAction.hpp>
#include <opm/input/eclipse/Deck/Deck.hpp>
#include <opm/input/eclipse/Deck/DeckKeyword.hpp>
#include <opm/input/eclipse/Deck/DeckRecord.hpp>
#include <opm/input/eclipse/Deck/DeckItem.hpp>
#include <opm/input/eclipse/Deck/UDAValue.hpp>
#include <opm/input/eclipse/Utility/Typetools.hpp>
#include <iostream>
#include <sstream>
#include <cstring>
#include <random>
#include <map>
using namespace Opm;
static std::string dumpItem(const DeckItem& it){
  std::ostringstream o; o<<it.name()<<":"<<int(it.getType())<<":"<<it.data_size()<<"[";
  for(size_t i=0;i<it.data_size();++i){
    o<<(it.defaultApplied(i)?"D":"V")<<(it.hasValue(i)?"":"!");
    if(!it.hasValue(i)){o<<",";continue;}
    switch(it.getType()){
      case type_tag::integer: o<<it.get<int>(i); break;
      case type_tag::fdouble: { double d=it.get<double>(i); o.precision(9); o<<d; break;}
      case type_tag::string: o<<"'"<<it.get<std::string>(i)<<"'"; break;
      case type_tag::raw_string: o<<"r'"<<it.get<RawString>(i)<<"'"; break;
      case type_tag::uda: { auto u=it.get<UDAValue>(i); if(u.is<double>()){o.precision(9); o<<"u"<<u.get<double>();} else if(u.is<std::string>()) o<<"u'"<<u.get<std::string>()<<"'"; else o<<"u-none"; break;}
      default: o<<"?";
    }
    o<<",";
  }
  o<<"]"; return o.str();
}
static std::string dumpDeck(const Deck& d){ std::ostringstream o; for (const auto& kw : d){ o<<kw.name()<<"{"; for (const auto& rec : kw){ o<<"("; for (const auto& it : rec) o<<dumpItem(it)<<";"; o<<")"; } o<<"}\n"; } return o.str(); }
std::mt19937_64 rng(1);
static std::string genValue(const ParserItem& it){
  std::ostringstream o; o.precision(8);
  switch(it.dataType()){
    case type_tag::integer: o<<(1+rng()%5); break;
    case type_tag::fdouble: o<<(0.5+(rng()%1000)/10.0); break;
    case type_tag::string: o<<"'S"<<rng()%10<<"'"; break;
    case type_tag::raw_string: o<<"R"<<rng()%10; break;
    case type_tag::uda: o<<(1.5+(rng()%100)); break;
    default: o<<"1";
  }
  return o.str();
}
static std::string genRecord(const ParserRecord& rec){
  std::ostringstream o; o<<" ";
  for(const auto& it: rec){
    if(it.sizeType()==ParserItem::item_size::ALL){ int n=1+rng()%4; for(int i=0;i<n;i++) o<<genValue(it)<<" "; }
    else { if(rng()%4==0) o<<"1* "; else o<<genValue(it)<<" "; }
  }
  o<<"/\n"; return o.str();
}
int main(){
  Parser p; ParseContext pc; pc.update(InputErrorAction::IGNORE); ErrorGuard eg;
  std::map<std::string,int> stat; int ok=0, fix=0, total=0;
  for(const auto& name: p.getAllDeckNames()){
    total++;
    if(!p.isRecognizedKeyword(name)){ stat["notrecognized:skip"]++; continue;} const auto& kw=p.getParserKeywordFromDeckName(name);
    auto st=kw.getSizeType(); std::string cls;
    std::ostringstream txt; txt<<name<<"\n";
    size_t nrec=std::distance(kw.begin(),kw.end()); if(nrec==0){ try{ auto d1=p.parseString(name+"\n",pc,eg); stat[std::string("norecord:")+(d1.size()==1?"ok":"nkw!=1")]++; if(d1.size()==1) ok++; }catch(...){stat["norecord:exc"]++;} continue; }
    if(kw.isCodeKeyword()){ cls="code"; stat[cls+":skip"]++; continue; }
    if(name=="TITLE"||name=="INCLUDE"||name=="PATHS"||name=="END"||name=="ENDINC"||name=="SKIP"||name=="SKIP100"||name=="SKIP300"||name=="ENDSKIP"||name=="IMPORT"||name=="PYINPUT"){ stat["special:skip"]++; continue; }
    if(st==FIXED||st==SPECIAL_CASE_ROCK){ cls= kw.isDataKeyword()?"data":"fixed"; size_t n= st==SPECIAL_CASE_ROCK?1:kw.getFixedSize(); for(size_t r=0;r<n;r++) txt<<genRecord(kw.getRecord(std::min(r,nrec-1))); if(n==0) {} }
    else if(st==SLASH_TERMINATED){ cls="slash"; int n=1+rng()%3; if(kw.isDoubleRecordKeyword()||kw.isAlternatingKeyword()) cls="slash-multi"; 
       if(kw.isAlternatingKeyword()){ for(int r=0;r<n*(int)nrec;r++) txt<<genRecord(kw.getRecord(r%nrec)); }
       else if(nrec>1 && !kw.isDoubleRecordKeyword()){ for(size_t r=0;r<nrec;r++) txt<<genRecord(kw.getRecord(r)); }
       else for(int r=0;r<n;r++) txt<<genRecord(kw.getRecord(0)); txt<<"/\n"; }
    else if(st==DOUBLE_SLASH_TERMINATED){ cls="dslash"; int n=1+rng()%2; for(int g=0;g<n;g++){ txt<<genRecord(kw.getRecord(0)); int m=1+rng()%2; for(int r=0;r<m;r++) txt<<genRecord(kw.getRecord(std::min<size_t>(1,nrec-1))); txt<<"/\n"; } txt<<"/\n"; }
    else if(st==OTHER_KEYWORD_IN_DECK){ cls= kw.isTableCollection()?"tablecoll":"sized-other"; 
       // default sizes: rely on default of size keyword (no TABDIMS) -> default item value
       const auto& ks=kw.getKeywordSize(); int n=1; try{ const auto& sk=p.getKeyword(ks.keyword()); n=sk.getRecord(0).get(ks.item()).getDefault<int>()+ks.size_shift(); }catch(...){ n=1; }
       if(kw.isTableCollection()){ for(int t=0;t<n;t++){ int m=1+rng()%2; for(int r=0;r<m;r++) txt<<genRecord(kw.getRecord(0)); txt<<"/\n"; } }
       else { if(kw.isAlternatingKeyword()) n*=nrec; for(int r=0;r<n;r++) txt<<genRecord(kw.getRecord(std::min<size_t>(r%std::max<size_t>(nrec,1),nrec-1))); } }
    else if(st==UNKNOWN){ cls="unknown"; int n=1+rng()%3; for(int r=0;r<n;r++) txt<<genRecord(kw.getRecord(0)); txt<<"/\n"; }
    else { cls="other"; }
    if(kw.rawStringKeyword()) cls+="-raw";
    try{
      auto d1=p.parseString(txt.str(),pc,eg);
      if(d1.size()!=1){ stat[cls+":nkw!=1"]++; continue; }
      std::ostringstream s; s<<d1; auto d2=p.parseString(s.str(),pc,eg);
      bool eq = dumpDeck(d1)==dumpDeck(d2);
      stat[cls+(eq?":ok":":PRINTPARSE-DIFF")]++; if(eq) ok++; else { fix++; if(fix<12) std::cout<<"DIFF "<<name<<"\n--text:\n"<<txt.str()<<"--printed:\n"<<s.str()<<"--A:"<<dumpDeck(d1)<<"--B:"<<dumpDeck(d2)<<"\n"; }
    }catch(const std::exception&e){ stat[cls+":exc"]++; static int ne=0; if(ne++<8) std::cout<<"EXC "<<name<<" ["<<cls<<"]: "<<std::string(e.what()).substr(0,160)<<"\n"; }
  }
  std::cout<<"total="<<total<<" ok="<<ok<<" diff="<<fix<<"\n"; for(auto&[k,v]:stat) std::cout<<"  "<<k<<" = "<<v<<"\n";
}
