#include <opm/input/eclipse/Parser/Parser.hpp>
#include <opm/input/eclipse/Deck/Deck.hpp>
#include <opm/input/eclipse/EclipseState/Grid/EclipseGrid.hpp>
#include <opm/input/eclipse/EclipseState/Grid/NNC.hpp>
#include <opm/input/eclipse/Units/UnitSystem.hpp>
#include <iostream>
#include <sstream>
#include <random>
#include <cmath>
#include <filesystem>
using namespace Opm;
int main(int argc,char**argv){
  std::mt19937_64 rng(atoi(argv[1])); Parser parser; long nchk=0,nviol=0;
  auto chk=[&](const std::string& w,double a,double b,double tol){ nchk++; if(!(std::fabs(a-b)<=tol*std::max({1.0,std::fabs(a),std::fabs(b)}))){ nviol++; if(nviol<15) std::cout<<"VIOL "<<w<<" "<<a<<" vs "<<b<<"\n"; } };
  for(int it=0;it<atoi(argv[2]);++it){
    int nx=1+rng()%6, ny=1+rng()%6, nz=1+rng()%6; int N=nx*ny*nz; std::vector<double> dx(nx),dy(ny),dz(nz); for(auto&v:dx)v=5+rng()%95; for(auto&v:dy)v=5+rng()%95; for(auto&v:dz)v=1+rng()%9;
    std::vector<int> act(N); for(auto&a:act)a=(rng()%4)?1:0; act[rng()%N]=1;
    const char* us[]={"METRIC","FIELD","LAB"}; std::string u=us[rng()%3]; double L = u=="FIELD"?0.3048:(u=="LAB"?0.01:1.0);
    std::ostringstream s; s.precision(17); s<<"RUNSPEC\n"<<u<<"\nDIMENS\n "<<nx<<" "<<ny<<" "<<nz<<" /\nGRID\nDXV\n"; for(double v:dx)s<<" "<<v; s<<" /\nDYV\n"; for(double v:dy)s<<" "<<v; s<<" /\nDZV\n"; for(double v:dz)s<<" "<<v; s<<" /\nTOPS\n "<<nx*ny<<"*1000 /\nACTNUM\n"; for(int a:act)s<<" "<<a; s<<" /\n";
    try{
      auto deck=parser.parseString(s.str()); EclipseGrid g(deck);
      // index maps
      size_t ai=0; for(int c=0;c<N;c++){ auto ijk=g.getIJK(c); nchk++; if((int)g.getGlobalIndex(ijk[0],ijk[1],ijk[2])!=c){nviol++; std::cout<<"VIOL ijk inverse\n";} nchk++; if(g.cellActive(c)!=(act[c]==1)){nviol++; std::cout<<"VIOL active\n";} if(act[c]){ nchk++; if(g.activeIndex(c)!=ai || g.getGlobalIndex(ai)!=(size_t)c){nviol++; std::cout<<"VIOL active map\n";} ai++; } }
      nchk++; if(g.getNumActive()!=ai){nviol++; std::cout<<"VIOL nactive\n";}
      double depth=0; for(int k=0;k<nz;k++){ for(int j=0;j<ny;j++) for(int i=0;i<nx;i++){ int c=i+nx*(j+ny*k); chk("vol",g.getCellVolume(c),dx[i]*dy[j]*dz[k]*L*L*L,1e-12); chk("depth",g.getCellDepth(c),(1000+depth+dz[k]/2)*L,1e-12); auto d=g.getCellDims(c); chk("dimx",d[0],dx[i]*L,1e-12); chk("dimz",d[2],dz[k]*L,1e-12);} depth+=dz[k]; }
      // COORD/ZCORN equivalent deck
      { std::ostringstream t; t.precision(17); t<<"RUNSPEC\n"<<u<<"\nDIMENS\n "<<nx<<" "<<ny<<" "<<nz<<" /\nGRID\nCOORD\n"; for(double v: g.getCOORD()) t<<" "<<v/L; t<<" /\nZCORN\n"; for(double v: g.getZCORN()) t<<" "<<v/L; t<<" /\nACTNUM\n"; for(int a:act)t<<" "<<a; t<<" /\n";
        auto d2=parser.parseString(t.str()); EclipseGrid g2(d2); for(int c=0;c<N;c++){ chk("cp vol",g2.getCellVolume(c),g.getCellVolume(c),1e-12); auto a=g.getCellCenter(c), b=g2.getCellCenter(c); for(int q=0;q<3;q++) chk("cp center",b[q],a[q],1e-12); } }
      // EGRID roundtrip
      for(bool fmt: {false,true}){ std::string fn=std::string("/tmp/exp/G.")+(fmt?"FEGRID":"EGRID"); std::filesystem::remove(fn); UnitSystem usys = u=="FIELD"?UnitSystem::newFIELD():(u=="LAB"?UnitSystem::newLAB():UnitSystem::newMETRIC()); g.save(fn,fmt,{},usys); EclipseGrid g3(fn);
        nchk++; if(g3.getNumActive()!=g.getNumActive()){nviol++; std::cout<<"VIOL egrid nactive\n";} for(int c=0;c<N;c++){ nchk++; if(g3.cellActive(c)!=g.cellActive(c)){nviol++; std::cout<<"VIOL egrid act\n";} chk(std::string("egrid vol ")+u+(fmt?" F":" U"),g3.getCellVolume(c),g.getCellVolume(c),2e-6); chk("egrid depth",g3.getCellDepth(c),g.getCellDepth(c),2e-6);} }
    }catch(const std::exception&e){ nviol++; std::cout<<"EXC "<<std::string(e.what()).substr(0,200)<<"\n"; }
  }
  std::cout<<"checks="<<nchk<<" viol="<<nviol<<"\n";
}
