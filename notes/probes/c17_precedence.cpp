#include <iostream>
#include <opm/common/utility/OpmInputError.hpp>
#include <opm/common/utility/TimeService.hpp>
#include <opm/io/eclipse/rst/udq.hpp>
#include <opm/input/eclipse/EclipseState/EclipseState.hpp>
#include <opm/input/eclipse/EclipseState/Grid/FieldPropsManager.hpp>
#include <opm/input/eclipse/EclipseState/Runspec.hpp>
#include <opm/input/eclipse/Python/Python.hpp>
#include <opm/input/eclipse/Schedule/MSW/SegmentMatcher.hpp>
#include <opm/input/eclipse/Schedule/MSW/WellSegments.hpp>
#include <opm/input/eclipse/Schedule/Schedule.hpp>
#include <opm/input/eclipse/Schedule/ScheduleState.hpp>
#include <opm/input/eclipse/Schedule/SummaryState.hpp>
#include <opm/input/eclipse/Schedule/UDQ/UDQActive.hpp>
#include <opm/input/eclipse/Schedule/UDQ/UDQAssign.hpp>
#include <opm/input/eclipse/Schedule/UDQ/UDQConfig.hpp>
#include <opm/input/eclipse/Schedule/UDQ/UDQContext.hpp>
#include <opm/input/eclipse/Schedule/UDQ/UDQEnums.hpp>
#include <opm/input/eclipse/Schedule/UDQ/UDQFunction.hpp>
#include <opm/input/eclipse/Schedule/UDQ/UDQFunctionTable.hpp>
#include <opm/input/eclipse/Schedule/UDQ/UDQSet.hpp>
#include <opm/input/eclipse/Schedule/UDQ/UDQState.hpp>
#include <opm/input/eclipse/Schedule/Well/NameOrder.hpp>
#include <opm/input/eclipse/Schedule/Well/Well.hpp>
#include <opm/input/eclipse/Schedule/Well/WellMatcher.hpp>
#include <opm/input/eclipse/Utility/Typetools.hpp>
#include <opm/input/eclipse/Deck/Deck.hpp>
#include <opm/input/eclipse/Deck/UDAValue.hpp>
#include <opm/input/eclipse/Parser/ErrorGuard.hpp>
#include <opm/input/eclipse/Parser/InputErrorAction.hpp>
#include <opm/input/eclipse/Parser/ParseContext.hpp>
#include <opm/input/eclipse/Parser/Parser.hpp>
#include <algorithm>
#include <cmath>
#include <cstddef>
#include <memory>
#include <limits>
#include <stdexcept>
#include <string>
#include <utility>
#include <vector>
using namespace Opm;
int main(){
  KeywordLocation location; UDQFunctionTable udqft; UDQParams udqp;
  SummaryState st(TimeService::now(), udqp.undefinedValue()); UDQState udq_state(udqp.undefinedValue());
  NameOrder wo{}; wo.add("P1"); WellMatcher wm(std::move(wo));
  UDQContext context(udqft, wm, {}, UDQContext::MatcherFactories{}, st, udq_state);
  auto ev=[&](std::vector<std::string> t){ UDQDefine d(udqp,"FU",0,location,t); auto r=d.eval(context); std::cout; for(auto&s:t)std::cout<<s<<" "; std::cout<<"=> "<<r[0].get()<<"\n"; };
  ev({"2","^","3","*","4"});
  ev({"2","*","3","^","2"});
  ev({"2","^","3","/","4"});
  ev({"2","^","3","+","4"});
  ev({"2","^","3","^","2"});
  ev({"-","2","^","2"});
  ev({"10","-","2","-","3"});
  ev({"16","/","4","/","2"});
  ev({"16","/","4","*","2"});
  ev({"2","+","3",">","4"});
  ev({"1","<","2","<","3"});
}
