#include <opm/input/eclipse/Units/UnitSystem.hpp>
#include <iostream>
#include <cmath>
#include <map>
#include <vector>
using namespace Opm; using M=UnitSystem::measure;
struct B { double L,T,P,Tscale,Toff,mu,K,Vl,Vg,Vr,Vgeo,mass,E,mol; };
int main(){
  const double inch=0.0254, ft=0.3048, day=86400, hour=3600, lb=0.45359237, g0=9.80665, psi=lb*g0/(inch*inch), atm=101325, bar=1e5, stb=42*231*inch*inch*inch, cP=1e-3, darcy=9.869232667160130e-13, mD=1e-3*darcy;
  std::map<std::string,B> sys={
   {"METRIC",{1,day,bar,1,273.15,cP,mD,1,1,1,1,1,1e3,1e3}},
   {"FIELD",{ft,day,psi,5.0/9.0,459.67*5.0/9.0,cP,mD,stb,1000*ft*ft*ft,stb,ft*ft*ft,lb,1054.3503,1e3*lb}},
   {"LAB",{0.01,hour,atm,1,273.15,cP,mD,1e-6,1e-6,1e-6,1e-6,1e-3,1,1}},
   {"PVT-M",{1,day,atm,1,273.15,cP,mD,1,1,1,1,1,1e3,1e3}} };
  long nchk=0,nviol=0;
  auto chk=[&](const std::string& w,double got,double ref){ nchk++; double rel=std::fabs(got-ref)/std::fabs(ref); if(!(rel<1e-12)){ nviol++; std::cout<<"VIOL "<<w<<" got "<<got<<" ref "<<ref<<" rel "<<rel<<"\n"; } };
  for(auto&[name,b]:sys){ UnitSystem u(name);
    std::map<M,double> ref={ {M::identity,1},{M::length,b.L},{M::time,b.T},{M::runtime,1},{M::density,b.mass/b.Vgeo},{M::pressure,b.P},{M::temperature_absolute,b.Tscale},{M::temperature,b.Tscale},{M::viscosity,b.mu},{M::permeability,b.K},{M::area,b.L*b.L},
      {M::liquid_surface_volume,b.Vl},{M::gas_surface_volume,b.Vg},{M::volume,b.Vr},{M::geometric_volume,b.Vgeo},{M::liquid_surface_rate,b.Vl/b.T},{M::gas_surface_rate,b.Vg/b.T},{M::rate,b.Vr/b.T},{M::geometric_volume_rate,b.Vgeo/b.T},{M::pipeflow_velocity,b.L},
      {M::transmissibility,cP*b.Vr/(b.T*b.P)},{M::effective_Kh,b.K*b.L},{M::mass,b.mass},{M::mass_rate,b.mass/b.T},{M::gas_oil_ratio,b.Vg/b.Vl},{M::oil_gas_ratio,b.Vl/b.Vg},{M::water_cut,1},{M::gas_formation_volume_factor,b.Vr/b.Vg},{M::oil_formation_volume_factor,b.Vr/b.Vl},{M::water_formation_volume_factor,b.Vr/b.Vl},
      {M::gas_inverse_formation_volume_factor,b.Vg/b.Vr},{M::oil_inverse_formation_volume_factor,b.Vl/b.Vr},{M::water_inverse_formation_volume_factor,b.Vl/b.Vr},{M::liquid_productivity_index,b.Vl/b.T/b.P},{M::gas_productivity_index,b.Vg/b.T/b.P},{M::energy,b.E},{M::energy_rate,b.E/b.T},
      {M::polymer_density, name=="FIELD"? b.mass/b.Vl : b.mass/b.Vgeo},{M::salinity, name=="FIELD"? b.mass/b.Vl : b.mass/b.Vgeo},{M::gas_oil_ratio_rate,1/b.T},{M::moles,b.mol},{M::ppm,1e-6},{M::ymodule,1e9},
      {M::icd_strength,b.P/((b.Vgeo/b.T)*(b.Vgeo/b.T))},{M::aicd_strength,b.P/(b.mass/b.Vgeo)/((b.Vgeo/b.T)*(b.Vgeo/b.T))},{M::dfactor,b.T/b.Vg} };
    for(auto&[m,f]:ref){ double off=(m==M::temperature)?b.Toff:0.0; chk(name+" to_si m"+std::to_string((int)m), u.to_si(m,1.0)-off, f); chk(name+" roundtrip m"+std::to_string((int)m), u.from_si(m,u.to_si(m,3.75)), 3.75); if(m==M::temperature) chk(name+" temp0", u.to_si(m,0.0), b.Toff); }
    nchk++; if((int)ref.size()!=(int)M::_count){ std::cout<<"NOTE reference covers "<<ref.size()<<" of "<<(int)M::_count<<" measures\n"; }
    // string dimensions
    std::map<std::string,double> dims={{"Length",b.L},{"Time",b.T},{"Pressure",b.P},{"Viscosity",b.mu},{"Permeability",b.K},{"LiquidSurfaceVolume",b.Vl},{"GasSurfaceVolume",b.Vg},{"ReservoirVolume",b.Vr},{"GeometricVolume",b.Vgeo},{"Density",b.mass/b.Vgeo},{"Mass",b.mass},{"Transmissibility",cP*b.Vr/(b.T*b.P)},{"GasDissolutionFactor",b.Vg/b.Vl},{"OilDissolutionFactor",b.Vl/b.Vg},{"Energy",b.E},
      {"Length*Length*Length/Time",b.L*b.L*b.L/b.T},{"LiquidSurfaceVolume/Time",b.Vl/b.T},{"1/Pressure",1/b.P},{"Viscosity*ReservoirVolume/Time*Pressure",cP*b.Vr/(b.T*b.P)},{"Permeability*Length",b.K*b.L},{"Pressure/Length",b.P/b.L}};
    for(auto&[d,f]:dims){ try{ chk(name+" dim "+d, u.to_si(d,1.0), f); }catch(const std::exception&e){ std::cout<<"EXC dim "<<d<<": "<<e.what()<<"\n"; } }
    try{ chk(name+" dim Temperature@10", u.to_si("Temperature",10.0), 10*b.Tscale+b.Toff); }catch(...){ }
  }
  std::cout<<"checks="<<nchk<<" viol="<<nviol<<"\n"; }
