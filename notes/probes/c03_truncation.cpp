#include <opm/input/eclipse/Parser/Parser.hpp>
#include <opm/input/eclipse/Parser/ParseContext.hpp>
#include <opm/input/eclipse/Parser/ErrorGuard.hpp>
#include <opm/input/eclipse/Parser/InputErrorAction.hpp>
#include <opm/input/eclipse/Deck/Deck.hpp>
#include <opm/input/eclipse/Deck/DeckKeyword.hpp>
#include <opm/input/eclipse/EclipseState/EclipseState.hpp>
#include <opm/input/eclipse/Schedule/Schedule.hpp>
#include <opm/input/eclipse/Schedule/ScheduleState.hpp>
#include <opm/input/eclipse/Python/Python.hpp>
#include <opm/common/utility/Serializer.hpp>
#include <opm/common/utility/MemPacker.hpp>
#include <opm/input/eclipse/Schedule/Action/Actions.hpp>
#include <opm/input/eclipse/Schedule/Action/ActionX.hpp>
#include <opm/input/eclipse/Schedule/GasLiftOpt.hpp>
#include <opm/input/eclipse/Schedule/Group/GConSale.hpp>
#include <opm/input/eclipse/Schedule/Group/GConSump.hpp>
#include <opm/input/eclipse/Schedule/Group/GroupEconProductionLimits.hpp>
#include <opm/input/eclipse/Schedule/Group/GuideRateConfig.hpp>
#include <opm/input/eclipse/Schedule/Network/Balance.hpp>
#include <opm/input/eclipse/Schedule/Network/ExtNetwork.hpp>
#include <opm/input/eclipse/Schedule/ResCoup/ReservoirCouplingInfo.hpp>
#include <opm/input/eclipse/Schedule/RFTConfig.hpp>
#include <opm/input/eclipse/Schedule/RPTConfig.hpp>
#include <opm/input/eclipse/Schedule/RSTConfig.hpp>
#include <opm/input/eclipse/Schedule/UDQ/UDQActive.hpp>
#include <opm/input/eclipse/Schedule/UDQ/UDQConfig.hpp>
#include <opm/input/eclipse/Schedule/Well/NameOrder.hpp>
#include <opm/input/eclipse/Schedule/Well/WellTestConfig.hpp>
#include <opm/input/eclipse/Schedule/Well/WListManager.hpp>
#include <opm/input/eclipse/Schedule/Well/Well.hpp>
#include <opm/input/eclipse/Schedule/Group/Group.hpp>
#include <opm/input/eclipse/Schedule/VFPProdTable.hpp>
#include <opm/input/eclipse/Schedule/VFPInjTable.hpp>
#include <opm/input/eclipse/Schedule/Source.hpp>
#include <opm/input/eclipse/Schedule/Well/PAvg.hpp>
#include <iostream>
#include <random>
using namespace Opm;

int main(int argc,char**argv){
  ParseContext pc; pc.update(InputErrorAction::IGNORE); ErrorGuard eg; Parser p; auto python=std::make_shared<Python>();
  for(int a=1;a<argc;a++){
    try{
      auto deck=p.parseFile(argv[a],pc,eg);
      EclipseState es(deck);
      Schedule full(deck,es,pc,eg,python);
      // find SCHEDULE idx and time keyword indices
      std::vector<size_t> timekw; size_t sidx=0; bool insched=false;
      for(size_t i=0;i<deck.size();++i){ const auto& kw=deck[i]; if(kw.name()=="SCHEDULE"){insched=true;sidx=i;} if(insched&&(kw.name()=="DATES"||kw.name()=="TSTEP")) timekw.push_back(i);}      
      int bad=0, cmp=0, badpack=0;
      for(size_t c=0;c<timekw.size();c+= std::max<size_t>(1,timekw.size()/6)){
        Deck tr(deck); tr.remove_keywords(timekw[c]+1, deck.size());
        try{
          Schedule ts(tr,es,pc,eg,python);
          size_t K=ts.size()-1;
          for(size_t k=0;k<K;k++){ cmp++; if(!(ts[k]==full[k])) {bad++; std::cout<<"   state differs cut="<<c<<" k="<<k<<"\n";}
              }
        }catch(const std::exception&e){ std::cout<<"  trunc exc cut "<<c<<": "<<std::string(e.what()).substr(0,150)<<"\n"; }
      }
      std::cout<<argv[a]<<" steps="<<full.size()<<" timekw="<<timekw.size()<<" compared="<<cmp<<" differ="<<bad<<" packdiffer="<<badpack<<"\n";
    }catch(const std::exception&e){ std::cout<<argv[a]<<" EXC "<<std::string(e.what()).substr(0,200)<<"\n"; }
  }
}
