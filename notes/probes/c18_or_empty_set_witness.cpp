#include <opm/input/eclipse/Parser/Parser.hpp>
#include <opm/input/eclipse/Deck/Deck.hpp>
#include <opm/input/eclipse/Deck/DeckKeyword.hpp>
#include <opm/input/eclipse/Schedule/Action/ActionX.hpp>
#include <opm/input/eclipse/Schedule/Action/ActionContext.hpp>
#include <opm/input/eclipse/Schedule/Action/ActionResult.hpp>
#include <opm/input/eclipse/Schedule/Action/Actdims.hpp>
#include <opm/input/eclipse/Schedule/SummaryState.hpp>
#include <opm/input/eclipse/Schedule/Well/WListManager.hpp>
#include <opm/common/utility/TimeService.hpp>
#include <iostream>
using namespace Opm;
static void run(const char* cond){ Parser parser; auto deck=parser.parseString(std::string("SCHEDULE\nACTIONX\n 'A' 10 /\n")+cond+"/\nENDACTIO\n"); auto [action,errors]=Action::parseActionX(deck["ACTIONX"].back(),Actdims{},0);
  SummaryState st(TimeService::now(),0.0); st.update("FOPR",5); for(int i=0;i<5;i++){ std::string w="W"+std::to_string(i); st.update_well_var(w,"WOPR",9); st.update_well_var(w,"WGOR",(i==1||i==3)?9:0); }
  WListManager wlm; Action::Context ctx(st,wlm); auto res=action.eval(ctx); std::cout<<cond<<" => "<<res.conditionSatisfied()<<" {"; for(const auto&w:res.matches().wells()) std::cout<<w<<","; std::cout<<"}\n\n"; }
int main(){ run(" ( FOPR >= 0 OR /\n WOPR 'W3' < 4 ) AND /\n WGOR 'W*' > 7 /\n"); run(" FOPR >= 0 AND /\n WGOR 'W*' > 7 /\n"); run(" ( FOPR >= 0 OR /\n FOPR < 4 ) AND /\n WGOR 'W*' > 7 /\n"); run(" ( WOPR 'W3' < 4 OR /\n FOPR >= 0 ) AND /\n WGOR 'W*' > 7 /\n"); }
