#include <config.h>
#include "ser_includes.hpp"
#include <opm/input/eclipse/Parser/Parser.hpp>
#include <opm/input/eclipse/Parser/ParseContext.hpp>
#include <opm/input/eclipse/Parser/ErrorGuard.hpp>
#include <opm/input/eclipse/Parser/InputErrorAction.hpp>
#include <opm/input/eclipse/Deck/Deck.hpp>
#include <opm/input/eclipse/EclipseState/EclipseState.hpp>
#include <opm/input/eclipse/Python/Python.hpp>
#include <opm/common/utility/Serializer.hpp>
#include <opm/common/utility/MemPacker.hpp>
#include <opm/common/utility/TimeService.hpp>
// --- the include set of tests/test_Serialization.cpp for Schedule and friends
#include <iostream>
#include <sstream>
#include <map>
#include <set>
#include <unordered_map>
#include <unordered_set>
#include <variant>
#include <optional>
#include <type_traits>
#include <cstring>
using namespace Opm;
// ---------- structural dump visitor with the Serializer call interface
struct DumpVisitor {
  std::ostringstream out; int depth=0;
  bool isSerializing() const { return true; }
  template<class T> struct is_vec:std::false_type{}; template<class T,class A> struct is_vec<std::vector<T,A>>:std::true_type{};
  template<class T> struct is_opt:std::false_type{}; template<class T> struct is_opt<std::optional<T>>:std::true_type{};
  template<class T> struct is_var:std::false_type{}; template<class...T> struct is_var<std::variant<T...>>:std::true_type{};
  template<class T> struct is_pair:std::false_type{}; template<class A,class B> struct is_pair<std::pair<A,B>>:std::true_type{}; template<class...T> struct is_pair<std::tuple<T...>>:std::true_type{};
  template<class T> struct is_sp:std::false_type{}; template<class T> struct is_sp<std::shared_ptr<T>>:std::true_type{}; template<class T> struct is_sp<std::unique_ptr<T>>:std::true_type{};
  template<class T> struct is_map:std::false_type{}; template<class K,class V,class C,class A> struct is_map<std::map<K,V,C,A>>:std::true_type{}; template<class K,class V,class H,class E,class A> struct is_map<std::unordered_map<K,V,H,E,A>>:std::true_type{};
  template<class T> struct is_set:std::false_type{}; template<class K,class C,class A> struct is_set<std::set<K,C,A>>:std::true_type{}; template<class K,class H,class E,class A> struct is_set<std::unordered_set<K,H,E,A>>:std::true_type{};
  template<class T> struct is_arr:std::false_type{}; template<class T,std::size_t N> struct is_arr<std::array<T,N>>:std::true_type{};
  template<class T, class=void> struct has_sop:std::false_type{}; template<class T> struct has_sop<T,std::void_t<decltype(std::declval<T&>().serializeOp(std::declval<DumpVisitor&>()))>>:std::true_type{};
  template<class T> std::string sub(const T& x){ DumpVisitor v; v(x); return v.out.str(); }
  template<class T> void operator()(const T& x){
    using U=std::remove_cv_t<std::remove_reference_t<T>>;
    if constexpr(is_sp<U>::value){ if(x){ out<<"&"; (*this)(*x);} else out<<"null"; }
    else if constexpr(is_pair<U>::value){ out<<"("; std::apply([this](const auto&... e){ ((this->operator()(e), out<<","),...); }, x); out<<")"; }
    else if constexpr(is_var<U>::value){ out<<"v"<<x.index()<<":"; std::visit([this](const auto& e){ (*this)(e); }, x); }
    else if constexpr(is_opt<U>::value){ if(x){ out<<"some:"; (*this)(*x);} else out<<"none"; }
    else if constexpr(std::is_same_v<U,std::vector<bool>>){ out<<"["; for(bool b:x) out<<(b?'1':'0'); out<<"]"; }
    else if constexpr(is_vec<U>::value||is_arr<U>::value){ out<<"["; for(const auto& e:x){ (*this)(e); out<<","; } out<<"]"; }
    else if constexpr(is_map<U>::value){ std::map<std::string,std::string> m; for(const auto& [k,v]:x) m[sub(k)]=sub(v); out<<"{"; for(auto&[k,v]:m) out<<k<<"=>"<<v<<";"; out<<"}"; }
    else if constexpr(is_set<U>::value){ std::set<std::string> s; for(const auto& k:x) s.insert(sub(k)); out<<"{"; for(auto&k:s) out<<k<<";"; out<<"}"; }
    else if constexpr(has_sop<U>::value){ out<<"<"; const_cast<U&>(x).serializeOp(*this); out<<">"; }
    else if constexpr(std::is_same_v<U,std::string>){ out<<'"'<<x<<'"'; }
    else if constexpr(std::is_floating_point_v<U>){ std::uint64_t b=0; double d=x; std::memcpy(&b,&d,8); out<<std::hex<<b<<std::dec; }
    else if constexpr(std::is_enum_v<U>){ out<<static_cast<long>(x); }
    else if constexpr(std::is_arithmetic_v<U>){ out<<+x; }
    else if constexpr(std::is_same_v<U,time_point>){ out<<"t"<<x.time_since_epoch().count(); }
    else { out<<"pod"<<sizeof(U)<<":"; const unsigned char* p=reinterpret_cast<const unsigned char*>(&x); for(size_t i=0;i<sizeof(U);i++) out<<std::hex<<(int)p[i]; out<<std::dec; }
    out<<" ";
  }
};
struct Ser : Serializer<Serialization::MemPacker> { using Serializer::Serializer; const std::vector<char>& buf() const { return m_buffer; } };
int main(int argc,char**argv){
  ParseContext pc; pc.update(InputErrorAction::IGNORE); ErrorGuard eg; Parser p; auto python=std::make_shared<Python>();
  for(int a=1;a<argc;a++){ try{
    auto deck=p.parseFile(argv[a],pc,eg); EclipseState es(deck); Schedule sched(deck,es,pc,eg,python);
    Serialization::MemPacker packer; Ser ser(packer); ser.pack(sched); size_t n1=ser.buf().size();
    Schedule s2; ser.unpack(s2); bool consumed = ser.position()==n1;
    DumpVisitor d1; d1(sched); DumpVisitor d2; d2(s2);
    Ser ser2(packer); ser2.pack(s2);
    std::cout<<argv[a]<<" packed="<<n1<<" consumed="<<consumed<<" eq="<<(sched==s2)<<" dumpEq="<<(d1.out.str()==d2.out.str())<<" dumpLen="<<d1.out.str().size()<<" repackLen="<<ser2.buf().size()<<"\n";
    Ser ser3(packer); ser3.pack(es); EclipseState es2; ser3.unpack(es2); DumpVisitor e1; e1(es); DumpVisitor e2; e2(es2); std::cout<<"   ES packed="<<ser3.buf().size()<<" consumed="<<(ser3.position()==ser3.buf().size())<<" dumpEq="<<(e1.out.str()==e2.out.str())<<" dumpLen="<<e1.out.str().size()<<"\n";
  }catch(const std::exception&e){ std::cout<<argv[a]<<" EXC "<<std::string(e.what()).substr(0,200)<<"\n"; } }
}
