#include <opm/io/eclipse/OutputStream.hpp>
#include <opm/io/eclipse/ERst.hpp>
#include <filesystem>
#include <fstream>
#include <iostream>
#include <iterator>
using namespace Opm::EclIO::OutputStream;
static void wr(const std::string& dir, const std::string& base, int step, bool fmt){
    ResultSet rset{dir, base};
    Restart rst(rset, step, Formatted{fmt}, Unified{true});
    rst.write("INTEHEAD", std::vector<int>(411, step));
    rst.write("PRESSURE", std::vector<float>(1003, 1.5f*step));
    rst.write("ZWEL", std::vector<std::string>{"A","B"});
}
static std::string slurp(const std::string& f){ std::ifstream i(f, std::ios::binary); return std::string(std::istreambuf_iterator<char>(i), {}); }
int main(){
  for (bool fmt : {false,true}) {
    std::filesystem::remove_all("a"); std::filesystem::remove_all("b");
    std::filesystem::create_directory("a"); std::filesystem::create_directory("b");
    for (int s : {1,2,3,2}) wr("a","X",s,fmt);
    for (int s : {1,2}) wr("b","X",s,fmt);
    std::string ext = fmt ? "FUNRST" : "UNRST";
    auto A = slurp("a/X."+ext), B = slurp("b/X."+ext);
    std::cout << "fmt="<<fmt<<" sizes "<<A.size()<<" "<<B.size()<<" equal="<<(A==B)<<"\n";
    if (A!=B){ size_t i=0; while(i<A.size()&&i<B.size()&&A[i]==B[i]) ++i; std::cout<<"first diff at "<<i<<"\n"; std::cout << "A: [" << A.substr(i>40?i-40:0, 80) << "]\nB: [" << B.substr(i>40?i-40:0,80) << "]\n"; }
  }
}
