#include <opm/input/eclipse/Parser/Parser.hpp>
#include <opm/input/eclipse/Parser/ParseContext.hpp>
#include <opm/input/eclipse/Parser/ErrorGuard.hpp>
#include <opm/input/eclipse/Parser/InputErrorAction.hpp>
#include <opm/input/eclipse/Deck/Deck.hpp>
#include <opm/input/eclipse/EclipseState/EclipseState.hpp>
#include <opm/input/eclipse/EclipseState/SummaryConfig/SummaryConfig.hpp>
#include <opm/input/eclipse/Schedule/Schedule.hpp>
#include <opm/input/eclipse/Python/Python.hpp>
#include <opm/common/OpmLog/OpmLog.hpp>
#include <iostream>
#include <fstream>
#include <sstream>
#include <random>
#include <vector>
#include <unistd.h>
#include <sys/wait.h>
using namespace Opm;
static std::string slurp(const std::string& f){ std::ifstream i(f, std::ios::binary); return std::string(std::istreambuf_iterator<char>(i), {}); }
static std::vector<std::string> splitLines(const std::string& s){ std::vector<std::string> v; std::istringstream is(s); std::string l; while(std::getline(is,l)) v.push_back(l); return v; }
static std::string mutate(const std::vector<std::vector<std::string>>& corpus, std::mt19937_64& rng){
  auto lines=corpus[rng()%corpus.size()];
  int nm=1+rng()%4;
  for(int m=0;m<nm&&!lines.empty();m++){
    size_t i=rng()%lines.size();
    switch(rng()%9){
      case 0: lines.erase(lines.begin()+i); break;
      case 1: lines.insert(lines.begin()+i, lines[i]); break;
      case 2: { const auto& o=corpus[rng()%corpus.size()]; if(!o.empty()){ size_t a=rng()%o.size(); size_t b=std::min(o.size(), a+1+rng()%20); lines.insert(lines.begin()+i,o.begin()+a,o.begin()+b);} break; }
      case 3: { // token delete
        std::istringstream is(lines[i]); std::vector<std::string> t; std::string x; while(is>>x) t.push_back(x); if(!t.empty()){ t.erase(t.begin()+rng()%t.size()); std::string r; for(auto&y:t) r+=y+" "; lines[i]=r; } break; }
      case 4: { std::istringstream is(lines[i]); std::vector<std::string> t; std::string x; while(is>>x) t.push_back(x); const char* repl[]={"/","*","1*","-1","0","1e308","-1e308","99999999999","'","''","'A B'","2*3*4","1*1*","*5","0*","1.0.0","1e","--","'/'","NaN","inf","2147483648","-2147483649","WOPR","?","'*'"}; if(!t.empty()){ t[rng()%t.size()]=repl[rng()%(sizeof(repl)/sizeof(*repl))]; std::string r; for(auto&y:t) r+=y+" "; lines[i]=r; } break; }
      case 5: { if(!lines[i].empty()){ size_t p=rng()%lines[i].size(); lines[i][p]=(char)(rng()%256); } break; }
      case 6: { if(!lines[i].empty()){ size_t p=rng()%lines[i].size(); lines[i]=lines[i].substr(0,p); } break; }
      case 7: { size_t j=rng()%lines.size(); std::swap(lines[i],lines[j]); break; }
      case 8: { lines.resize(i); break; }
    }
  }
  std::string r; for(auto&l:lines){ r+=l; r+="\n"; } return r;
}
int main(int argc,char**argv){
  unsigned long seed=atol(argv[1]); int n=atoi(argv[2]);
  std::vector<std::vector<std::string>> corpus; for(int a=3;a<argc;a++) corpus.push_back(splitLines(slurp(argv[a])));
  std::mt19937_64 rng(seed); Parser parser; auto python=std::make_shared<Python>();
  int nparse=0,nes=0,nsched=0,nsum=0;
  for(int c=0;c<n;c++){
    std::string txt=mutate(corpus,rng);
    { std::ofstream o("/tmp/exp/fuzz_current_"+std::to_string(seed)+".txt", std::ios::binary); o<<txt; }
    try{
      ParseContext pc; if(rng()%2) pc.update(InputErrorAction::IGNORE); ErrorGuard eg;
      auto deck=parser.parseString(txt,pc,eg); nparse++; eg.clear();
      EclipseState es(deck); nes++;
      Schedule sched(deck,es,pc,eg,python); nsched++; eg.clear();
      SummaryConfig sc(deck,sched,es.fieldProps(),es.aquifer(),pc,eg); nsum++; eg.clear();
    }catch(const std::exception&){ }
  }
  std::cout<<"seed="<<seed<<" cases="<<n<<" parsed="<<nparse<<" es="<<nes<<" sched="<<nsched<<" sumcfg="<<nsum<<"\n";
}
