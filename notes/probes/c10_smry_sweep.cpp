#include <opm/io/eclipse/OutputStream.hpp>
#include <opm/io/eclipse/EclOutput.hpp>
#include <opm/io/eclipse/ESmry.hpp>
#include <opm/io/eclipse/ExtESmry.hpp>
#include <opm/common/utility/TimeService.hpp>
#include <filesystem>
#include <iostream>
#include <random>
#include <cmath>
using namespace Opm; using namespace Opm::EclIO; using namespace Opm::EclIO::OutputStream;
int main(int argc,char**argv){
  std::mt19937_64 rng(atoi(argv[1])); long nchk=0,nviol=0; int ncfg=0;
  std::vector<int> counts; for(int base: {0,1000,2000,3000,4000}) for(int d=-3; d<=3; d++) if(base+d>=2) counts.push_back(base+d); counts.push_back(17); counts.push_back(4500);
  for(bool fmt: {false,true}) for(bool unif: {true,false}) for(int nv: counts){
    std::string dir="/tmp/exp/smry"; std::filesystem::remove_all(dir); std::filesystem::create_directories(dir);
    ResultSet rset{dir,"CASE"}; ncfg++;
    time_point start;
    std::tm tm{}; tm.tm_year=120; tm.tm_mon=0; tm.tm_mday=1; start=TimeService::from_time_t(TimeService::makeUTCTime(tm));
    // vectors: TIME first, then well vectors WOPR:Wn..., block BPR
    std::vector<std::string> keys; 
    { SummarySpecification spec(rset, Formatted{fmt}, SummarySpecification::UnitConvention::Metric, {20,20,20}, {"",0}, start);
      SummarySpecification::Parameters prm; prm.add("TIME",":+:+:+:+",0,"DAYS"); keys.push_back("TIME");
      for(int i=1;i<nv;i++){ if(i%2){ std::string w="W"+std::to_string(i); prm.add("WOPR",w,0,"SM3/DAY"); keys.push_back("WOPR:"+w);} else { int num=i; prm.add("BPR",":+:+:+:+",num,"BARSA"); int ii=(num-1)%20+1, jj=((num-1)/20)%20+1, kk=(num-1)/400+1; keys.push_back("BPR:"+std::to_string(ii)+","+std::to_string(jj)+","+std::to_string(kk)); } }
      spec.write(prm); }
    int nrep=1+rng()%4; std::vector<std::vector<float>> data; std::vector<bool> isrep; int mini=0; double t=0;
    std::unique_ptr<EclOutput> out;
    for(int rs=1; rs<=nrep; rs++){
      int nmini=1+rng()%3;
      if(!unif || !out) out=createSummaryFile(rset, rs, Formatted{fmt}, Unified{unif});
      out->write("SEQHDR", std::vector<int>{rs});
      for(int m=0;m<nmini;m++){ t+=1.0+rng()%10; std::vector<float> p(nv); p[0]=(float)t; for(int i=1;i<nv;i++) p[i]=(float)(rs*1000.0+m*10+i*0.001+ (rng()%100)*0.5);
        out->write("MINISTEP", std::vector<int>{mini++}); out->write("PARAMS", p); data.push_back(p); isrep.push_back(m==nmini-1); }
      out->flushStream();
    }
    out.reset();
    std::string smspec=dir+std::string("/CASE.")+(fmt?"FSMSPEC":"SMSPEC");
    auto check=[&](const char* who, const std::string& key, const std::vector<float>& got, int col){ nchk++; bool ok=got.size()==data.size(); for(size_t s=0;ok&&s<data.size();s++) ok = got[s]==data[s][col]; if(!ok){ nviol++; if(nviol<400){ std::cout<<"VIOL "<<who<<" fmt="<<fmt<<" unif="<<unif<<" nv="<<nv<<" col="<<col<<" key="<<key<<" size "<<got.size()<<" vs "<<data.size(); for(size_t s=0;s<got.size()&&s<data.size();s++) if(got[s]!=data[s][col]){ std::cout<<" step "<<s<<" got "<<got[s]<<" exp "<<data[s][col]; break;} std::cout<<"\n"; } } };
    try{
      { ESmry e(smspec); e.loadData(); for(int c=0;c<nv;c++) if(c<3||c>nv-4||c%97==0) check("ESmry.loadAll",keys[c],e.get(keys[c]),c); 
        nchk++; if((int)e.numberOfTimeSteps()!=(int)data.size()){nviol++; std::cout<<"VIOL nsteps\n";}
        auto r=e.get_at_rstep(keys[nv-1]); size_t nr=0; for(bool b:isrep) nr+=b; nchk++; if(r.size()!=nr){ nviol++; std::cout<<"VIOL rstep count "<<r.size()<<" vs "<<nr<<"\n"; } }
      { ESmry e(smspec); std::vector<std::string> sel; std::vector<int> cols; for(int c=0;c<nv;c++) if(c<3||c>nv-4||c%97==0||(c>=998&&c<=1002)){ sel.push_back(keys[c]); cols.push_back(c);} e.loadData(sel); for(size_t i=0;i<sel.size();i++) check("ESmry.loadSel",sel[i],e.get(sel[i]),cols[i]); }
      { ESmry e(smspec); if(e.make_esmry_file()){ ExtESmry x(dir+"/CASE.ESMRY"); x.loadData(); for(int c=0;c<nv;c++) if(c<3||c>nv-4||c%97==0) check("ExtESmry",keys[c],x.get(keys[c]),c); } else { nviol++; std::cout<<"make_esmry_file false\n"; } }
    }catch(const std::exception&e){ nviol++; std::cout<<"EXC fmt="<<fmt<<" unif="<<unif<<" nv="<<nv<<": "<<e.what()<<"\n"; }
  }
  std::cout<<"configs="<<ncfg<<" checks="<<nchk<<" viol="<<nviol<<"\n";
}
