#include <opm/input/eclipse/Parser/Parser.hpp>
#include <opm/input/eclipse/Deck/Deck.hpp>
#include <opm/input/eclipse/EclipseState/EclipseState.hpp>
#include <opm/input/eclipse/Schedule/Schedule.hpp>
#include <opm/input/eclipse/Schedule/ScheduleState.hpp>
#include <opm/input/eclipse/Schedule/Action/Actions.hpp>
#include <opm/input/eclipse/Schedule/Action/ActionX.hpp>
#include <opm/input/eclipse/Schedule/Action/ActionResult.hpp>
#include <opm/input/eclipse/Schedule/Action/SimulatorUpdate.hpp>
#include <opm/input/eclipse/Schedule/Events.hpp>
#include <opm/input/eclipse/Schedule/Well/Well.hpp>
#include <opm/input/eclipse/Schedule/Well/WellConnections.hpp>
#include <opm/input/eclipse/Schedule/Group/Group.hpp>
#include <opm/input/eclipse/Python/Python.hpp>
#include <iostream>
#include <sstream>
#include <random>
using namespace Opm;
int main(int argc,char**argv){
  std::mt19937_64 rng(atoi(argv[1])); auto U=[&](double a,double b){return std::uniform_real_distribution<double>(a,b)(rng);};
  Parser parser; auto python=std::make_shared<Python>(); long ncmp=0,nviol=0,ncase=0;
  for(int it=0;it<atoi(argv[2]);++it){
    int nw=3+rng()%3, nsteps=3+rng()%4;
    // body templates: use '?' or explicit names
    struct Body{ std::string kw; std::function<std::string(const std::string&)> rec; bool perwell; };
    std::vector<Body> pool={
      {"WELOPEN",[&](const std::string&w){ return " '"+w+"' "+(rng()%2?"SHUT":"OPEN")+" /\n"; },true},
      {"WCONPROD",[&](const std::string&w){ std::ostringstream o; o<<" '"<<w<<"' OPEN ORAT "<<int(U(100,900))<<" 4* "<<int(U(50,150))<<" /\n"; return o.str(); },true},
      {"WELTARG",[&](const std::string&w){ std::ostringstream o; o<<" '"<<w<<"' ORAT "<<int(U(100,900))<<" /\n"; return o.str(); },true},
      {"WTMULT",[&](const std::string&w){ std::ostringstream o; o<<" '"<<w<<"' ORAT "<<(1+int(U(1,5)))*0.5<<" /\n"; return o.str(); },true},
      {"WEFAC",[&](const std::string&w){ std::ostringstream o; o<<" '"<<w<<"' 0."<<1+rng()%9<<" /\n"; return o.str(); },true},
      {"GCONPROD",[&](const std::string&){ std::ostringstream o; o<<" 'G1' ORAT "<<int(U(1000,5000))<<" /\n"; return o.str(); },false},
      {"WELPI",[&](const std::string&w){ return std::string(); },true}, // placeholder skip
    };
    int nb=1+rng()%3; std::vector<std::pair<std::string,std::string>> body; // (kw, record template with @W@)
    for(int b=0;b<nb;b++){ auto& t=pool[rng()%6]; std::string r=t.rec("@W@"); body.push_back({t.kw,r}); }
    int defstep=rng()%2; int n=defstep+rng()%(nsteps-defstep); // apply step
    std::vector<std::string> match; for(int w=0;w<nw;w++) if(rng()%2) match.push_back("W"+std::to_string(w)); if(match.empty()) match.push_back("W0");
    auto mk=[&](bool inlined){ std::ostringstream s;
      s<<"RUNSPEC\nDIMENS\n 10 10 3 /\nOIL\nGAS\nWATER\nWELLDIMS\n 10 5 5 10 /\nSTART\n 1 JAN 2020 /\nGRID\nDX\n 300*100 /\nDY\n 300*100 /\nDZ\n 300*10 /\nTOPS\n 100*2000 /\nPERMX\n 300*100 /\nPERMY\n 300*100 /\nPERMZ\n 300*10 /\nPORO\n 300*0.2 /\nPROPS\nSOLUTION\nSCHEDULE\n";
      s<<"WELSPECS\n"; for(int w=0;w<nw;w++) s<<" 'W"<<w<<"' 'G1' "<<w+1<<" 1 1* OIL /\n"; s<<"/\nCOMPDAT\n"; for(int w=0;w<nw;w++) s<<" 'W"<<w<<"' 0 0 1 2 OPEN 1* 10 /\n"; s<<"/\nWCONPROD\n"; for(int w=0;w<nw;w++) s<<" 'W"<<w<<"' OPEN ORAT 500 4* 100 /\n"; s<<"/\n";
      for(int st=0; st<nsteps; st++){
        if(st==defstep){ s<<"ACTIONX\n 'ACT1' 10 /\n WOPR 'W*' > 1 /\n/\n"; for(auto&[k,r]:body){ std::string rr=r; auto p=rr.find("@W@"); if(p!=std::string::npos) rr.replace(p,3,"?"); s<<k<<"\n"<<rr<<"/\n"; } s<<"ENDACTIO\n"; }
        if(st>0 && st%2==0){ s<<"WELTARG\n 'W1' BHP "<<90+st<<" /\n/\n"; }
        if(inlined && st==n){ for(auto&[k,r]:body){ s<<k<<"\n"; if(r.find("@W@")!=std::string::npos){ for(auto& w: match){ std::string rr=r; rr.replace(rr.find("@W@"),3,w); s<<rr; } } else s<<r; s<<"/\n"; } }
        s<<"TSTEP\n 10 /\n";
      }
      return s.str(); };
    try{
      std::string ta=mk(false), tb=mk(true);
      auto da=parser.parseString(ta); EclipseState esa(da); Schedule sa(da,esa,python);
      auto db=parser.parseString(tb); EclipseState esb(db); Schedule sb(db,esb,python);
      const auto& action=sa[n].actions()["ACT1"];
      std::sort(match.begin(),match.end());
      auto res=Action::Result{true}.wells(match);
      sa.applyAction(n, action, res.matches(), std::unordered_map<std::string,double>{});
      ncase++;
      for(size_t k=0;k<sa.size();k++){ ncmp++; bool eq = sa[k]==sb[k];
        if(!eq && k==(size_t)n){ // tolerate ACTIONX event marker only: compare wells/groups
          bool weq=true; for(auto& wn: sa.wellNames(k)) weq = weq && (sa.getWell(wn,k)==sb.getWell(wn,k)); for(auto& gn: sa.groupNames(k)) weq=weq&&(sa.getGroup(gn,k)==sb.getGroup(gn,k)); eq=weq; }
        if(!eq){ nviol++; if(nviol<10){ std::cout<<"VIOL case="<<it<<" n="<<n<<" k="<<k<<" body:"; for(auto&[kk,r]:body) std::cout<<kk<<" "; std::cout<<"\n"; for(auto& wn: sa.wellNames(k)) if(!(sa.getWell(wn,k)==sb.getWell(wn,k))) std::cout<<"   well differs: "<<wn<<"\n"; } }
      }
    }catch(const std::exception&e){ nviol++; std::cout<<"EXC case "<<it<<": "<<std::string(e.what()).substr(0,300)<<"\n"; }
  }
  std::cout<<"cases="<<ncase<<" compared="<<ncmp<<" viol="<<nviol<<"\n";
}
