#include <opm/input/eclipse/Parser/Parser.hpp>
#include <opm/input/eclipse/Deck/Deck.hpp>
#include <opm/input/eclipse/EclipseState/EclipseState.hpp>
#include <opm/input/eclipse/EclipseState/IOConfig/IOConfig.hpp>
#include <opm/input/eclipse/EclipseState/SummaryConfig/SummaryConfig.hpp>
#include <opm/input/eclipse/Schedule/Schedule.hpp>
#include <opm/input/eclipse/Schedule/SummaryState.hpp>
#include <opm/input/eclipse/Schedule/Action/State.hpp>
#include <opm/input/eclipse/Schedule/UDQ/UDQState.hpp>
#include <opm/input/eclipse/Schedule/UDQ/UDQConfig.hpp>
#include <opm/input/eclipse/Schedule/Well/Well.hpp>
#include <opm/input/eclipse/Schedule/Well/WellConnections.hpp>
#include <opm/input/eclipse/Schedule/Well/Connection.hpp>
#include <opm/input/eclipse/Schedule/Well/WellTestState.hpp>
#include <opm/input/eclipse/Python/Python.hpp>
#include <opm/input/eclipse/Units/UnitSystem.hpp>
#include <opm/output/eclipse/Summary.hpp>
#include <opm/output/eclipse/Inplace.hpp>
#include <opm/output/eclipse/RestartIO.hpp>
#include <opm/output/eclipse/RestartValue.hpp>
#include <opm/output/eclipse/AggregateAquiferData.hpp>
#include <opm/output/data/Wells.hpp>
#include <opm/output/data/Groups.hpp>
#include <opm/output/data/Solution.hpp>
#include <opm/output/data/Cells.hpp>
#include <opm/io/eclipse/OutputStream.hpp>
#include <opm/io/eclipse/ERst.hpp>
#include <opm/io/eclipse/RestartFileView.hpp>
#include <opm/io/eclipse/rst/state.hpp>
#include <opm/input/eclipse/EclipseState/InitConfig/InitConfig.hpp>
#include <opm/common/utility/TimeService.hpp>
#include <filesystem>
#include <iostream>
#include <fstream>
#include <sstream>
#include <random>
#include <cmath>
using namespace Opm;
static std::string slurp(const std::string& f){ std::ifstream i(f, std::ios::binary); return std::string(std::istreambuf_iterator<char>(i), {}); }
int main(int argc,char**argv){
  std::mt19937_64 rng(atoi(argv[1])); auto U=[&](double a,double b){return std::uniform_real_distribution<double>(a,b)(rng);};
  std::string base=slurp(argv[2]); const char* usys[]={"METRIC","FIELD","LAB","PVT-M"};
  long nchk=0,nviol=0; auto python=std::make_shared<Python>(); Parser parser;
  auto chk=[&](const std::string& what,double got,double ref,double rtol){ nchk++; if(!(std::fabs(got-ref)<=rtol*std::max(std::fabs(ref),1e-30) || (got==ref))){ nviol++; if(nviol<25) std::cout<<"VIOL "<<what<<" got="<<got<<" ref="<<ref<<"\n"; } };
  for(int cfg=0; cfg<atoi(argv[3]); cfg++){
    std::string us=usys[cfg%4]; bool wdouble=rng()%2; bool fmt=rng()%2, unif=rng()%2;
    std::string txt=base; { auto p=txt.find("DIMENS"); txt.insert(p, us+"\n"+(fmt?"FMTOUT\nFMTIN\n":"")); }
    if(!unif){ for(const char* k: {"UNIFOUT\n","UNIFIN\n"}){ auto p=txt.find(k); if(p!=std::string::npos) txt.erase(p,strlen(k)); } }
    std::string dir="/tmp/exp/rst"; std::filesystem::remove_all(dir); std::filesystem::create_directories(dir);
    try{
      auto deck=parser.parseString(txt); EclipseState es(deck); es.getIOConfig().setEclCompatibleRST(false); es.getIOConfig().setOutputDir(dir); es.getIOConfig().setBaseName("BASE_SIM");
      Schedule sched(deck,es,python); SummaryConfig scfg(deck,sched,es.fieldProps(),es.aquifer());
      const auto& grid=es.getInputGrid(); const auto& units=es.getUnits();
      out::Summary summary(scfg,es,grid,sched,dir+"/BASE_SIM");
      SummaryState st(TimeService::from_time_t(sched.getStartTime()), 0.0); Action::State action_state; UDQState udq_state(0.0); WellTestState wtest;
      int rstep=1+rng()%(sched.size()-1);
      data::Wells wells; data::Solution sol; 
      summary.eval(st,0,0.0,{}, {}, {}, {}, {}, {}, {});
      for(int step=1; step<=rstep; step++){
        wells.clear();
        for(const auto& w: sched.getWells(step-1)){
          auto& xw=wells[w.name()]; double sgn=w.isInjector()?+1:-1; bool open=w.getStatus()==Well::Status::OPEN;
          xw.dynamicStatus=w.getStatus(); xw.current_control.isProducer=w.isProducer();
          if(w.isProducer()) xw.current_control.prod=Well::ProducerCMode::ORAT; else xw.current_control.inj=Well::InjectorCMode::RATE;
          double o=w.isInjector()?0:U(1,100)/86400, wa=w.isInjector()?0:U(1,100)/86400, g=U(100,1e4)/86400; if(!open){o=wa=g=0;}
          xw.rates.set(data::Rates::opt::oil,sgn*o).set(data::Rates::opt::wat,sgn*wa).set(data::Rates::opt::gas,sgn*g);
          xw.bhp=U(1e7,3e7); xw.thp=U(1e6,5e6); xw.temperature=U(300,400);
          int nc=0; for(const auto& c: w.getConnections()) if(c.state()==Connection::State::OPEN) nc++;
          for(const auto& c: w.getConnections()){ data::Connection xc; xc.index=c.global_index(); bool copen=open&&c.state()==Connection::State::OPEN; double f=copen?1.0/nc:0.0;
            xc.rates.set(data::Rates::opt::oil,sgn*o*f).set(data::Rates::opt::wat,sgn*wa*f).set(data::Rates::opt::gas,sgn*g*f);
            xc.pressure=U(1e7,3e7); xc.reservoir_rate=sgn*(o+wa)*f*1.1; xc.cell_pressure=U(1e7,3e7); xc.cell_saturation_water=U(0,0.5); xc.cell_saturation_gas=U(0,0.5); xc.effective_Kh=c.Kh(); xc.trans_factor=c.CF(); xw.connections.push_back(xc); }
        }
        double t=sched.seconds(step);
        summary.eval(st,step,t,wells,{}, {}, {}, {}, {}, {});
      }
      size_t na=grid.getNumActive(); std::vector<double> pr(na),sw(na),sg(na),rs(na); for(size_t i=0;i<na;i++){ pr[i]=U(1e7,4e7); sw[i]=U(0,1); sg[i]=U(0,1-sw[i]); rs[i]=U(0,200);}      
      sol.insert("PRESSURE",UnitSystem::measure::pressure,pr,data::TargetType::RESTART_SOLUTION); sol.insert("SWAT",UnitSystem::measure::identity,sw,data::TargetType::RESTART_SOLUTION);
      sol.insert("SGAS",UnitSystem::measure::identity,sg,data::TargetType::RESTART_SOLUTION); sol.insert("RS",UnitSystem::measure::gas_oil_ratio,rs,data::TargetType::RESTART_SOLUTION);
      RestartValue value(sol,wells,{}, {});
      std::vector<double> extra(7); for(auto&x:extra) x=U(-5,5); value.addExtra("EXTRA",UnitSystem::measure::pressure,extra);
      { EclIO::OutputStream::Restart rstFile{ EclIO::OutputStream::ResultSet{dir,"BASE_SIM"}, rstep, EclIO::OutputStream::Formatted{fmt}, EclIO::OutputStream::Unified{unif} };
        std::optional<RestartIO::Helpers::AggregateAquiferData> aq;
        RestartIO::save(rstFile,rstep,sched.seconds(rstep),value,es,grid,sched,action_state,wtest,st,udq_state,aq,wdouble); }
      // ---- load
      std::string fname=es.getIOConfig().getRestartFileName(dir+"/BASE_SIM",rstep,false);
      SummaryState st2(TimeService::from_time_t(sched.getStartTime()),0.0); Action::State as2;
      std::vector<RestartKey> keys{{"PRESSURE",UnitSystem::measure::pressure},{"SWAT",UnitSystem::measure::identity},{"SGAS",UnitSystem::measure::identity},{"RS",UnitSystem::measure::gas_oil_ratio}};
      std::vector<RestartKey> ekeys{{"EXTRA",UnitSystem::measure::pressure,true}};
      auto rv=RestartIO::load(fname,rstep,as2,st2,keys,es,grid,sched,ekeys);
      double stol=wdouble?1e-12:2e-7; std::string tag="["+us+(fmt?" F":" U")+(unif?" unif":" sep")+(wdouble?" dbl":" flt")+" step="+std::to_string(rstep)+"] ";
      for(auto&k: {"PRESSURE","SWAT","SGAS","RS"}){ const auto&a=sol.data<double>(k); const auto&b=rv.solution.data<double>(k); nchk++; if(a.size()!=b.size()){nviol++; std::cout<<"VIOL size "<<k<<"\n"; continue;} for(size_t i=0;i<a.size();i+=37) chk(tag+k,b[i],a[i],stol); }
      { const auto& e2=rv.getExtra("EXTRA"); for(size_t i=0;i<extra.size();i++) chk(tag+"EXTRA",e2[i],extra[i],1e-12); }
      for(const auto& [wn,xw]: wells){ const auto& yw=rv.wells.at(wn); bool flowing = xw.dynamicStatus==Well::Status::OPEN;
        if(!flowing) continue;
        for(auto p: {data::Rates::opt::oil,data::Rates::opt::wat,data::Rates::opt::gas}) chk(tag+wn+" rate"+std::to_string((int)p), yw.rates.get(p,0.0), xw.rates.get(p,0.0), 1e-6);
        chk(tag+wn+" bhp",yw.bhp,xw.bhp,1e-6); chk(tag+wn+" thp",yw.thp,xw.thp,1e-6);
        nchk++; if(!(yw.current_control==xw.current_control)){ nviol++; if(nviol<25) std::cout<<"VIOL "<<tag<<wn<<" control\n"; }
        for(const auto& xc: xw.connections){ const auto* yc=yw.find_connection(xc.index); nchk++; if(!yc){ nviol++; std::cout<<"VIOL "<<tag<<wn<<" conn missing\n"; continue; }
          for(auto p: {data::Rates::opt::oil,data::Rates::opt::wat,data::Rates::opt::gas}) chk(tag+wn+" conn"+std::to_string(xc.index)+" rate"+std::to_string((int)p), yc->rates.get(p,0.0), xc.rates.get(p,0.0), 1e-6);
          chk(tag+wn+" conn pressure", yc->pressure, xc.pressure, 1e-6); }
      }
      { std::string t2=txt; auto p=t2.find("SOLUTION\n"); t2.insert(p+9, "RESTART\n '"+dir+"/BASE_SIM' "+std::to_string(rstep)+" /\n"); p=t2.find("SCHEDULE\n"); t2.insert(p+9,"SKIPREST\n");
        auto deck2=parser.parseString(t2); EclipseState es2(deck2);
        auto rst_file=std::make_shared<EclIO::ERst>(fname); auto rst_view=std::make_shared<EclIO::RestartFileView>(std::move(rst_file),rstep);
        const auto rst=RestartIO::RstState::load(std::move(rst_view), es2.runspec(), parser);
        Schedule rsched(deck2,es2,python,false,false,true,std::nullopt,&rst);
        for(size_t k=rstep;k<sched.size();k++){ nchk++; if(!Schedule::cmp(sched,rsched,k)){ nviol++; std::cout<<"VIOL "<<tag<<" Schedule::cmp step "<<k<<"\n"; } }
      }
      // cumulatives
      for(const auto& wn: sched.wellNames(rstep-1)) for(const char* k: {"WOPT","WWPT","WGPT","WGIT","WWIT"}) if(st.has_well_var(wn,k)) chk(tag+wn+":"+k, st2.has_well_var(wn,k)?st2.get_well_var(wn,k):-1, st.get_well_var(wn,k), 1e-6);
      for(const char* k: {"FOPT","FWPT","FGPT","FGIT"}) if(st.has(k)) chk(tag+k, st2.has(k)?st2.get(k):-1, st.get(k),1e-6);
    }catch(const std::exception&e){ nviol++; std::cout<<"EXC cfg "<<cfg<<" "<<us<<": "<<std::string(e.what()).substr(0,300)<<"\n"; }
  }
  std::cout<<"checks="<<nchk<<" viol="<<nviol<<"\n";
}
