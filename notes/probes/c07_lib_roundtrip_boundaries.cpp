#include <opm/io/eclipse/EclOutput.hpp>
#include <opm/io/eclipse/EclFile.hpp>
#include <opm/io/eclipse/EclUtil.hpp>
#include <filesystem>
#include <iostream>
#include <random>
#include <cmath>
#include <cstring>
#include <limits>
using namespace Opm::EclIO;
int main(int argc,char**argv){ std::mt19937_64 rng(atoi(argv[1])); long nchk=0,nviol=0;
  auto V=[&](const std::string& m){ nviol++; if(nviol<25) std::cout<<"VIOL "<<m<<"\n"; };
  for(bool fmt: {false,true}) for(bool ix: {false,true}){
    for(int len=0; len<=2010; len+= (len<12||len%1000>990||len%1000<8||(len>=100&&len<=112)||(len>=205&&len<=215))?1:37){
      std::string fn="/tmp/exp/ecl7.tmp"; std::filesystem::remove(fn);
      std::vector<int> vi(len); for(auto&x:vi) x=(int)rng(); if(len>2){vi[0]=std::numeric_limits<int>::min(); vi[1]=std::numeric_limits<int>::max();}
      std::vector<float> vf(len); for(auto&x:vf) x=std::ldexp((float)((int)(rng()%2000000)-1000000)/1000000.0f,(int)(rng()%60)-30); if(len>3){vf[0]=0.0f; vf[1]=-0.0f; vf[2]=1e-38f; vf[3]=3.4e38f;}
      std::vector<double> vd(len); for(auto&x:vd) x=std::ldexp((double)((long)(rng()%2000000000)-1000000000)/1e9,(int)(rng()%600)-300); if(len>3){vd[0]=0.0; vd[1]=1e-300; vd[2]=-1e300; vd[3]=1.0;}
      std::vector<bool> vb(len); for(int i=0;i<len;i++) vb[i]=rng()%2;
      std::vector<std::string> vs(len), vc(len); for(auto&x:vs){ int n=rng()%9; x.clear(); for(int i=0;i<n;i++) x.push_back('A'+rng()%26); } for(auto&x:vc){ int n=1+rng()%20; x.clear(); for(int i=0;i<n;i++) x.push_back('a'+rng()%26); }
      try{
        { EclOutput o(fn,fmt); if(ix) o.set_ix(); o.write("INTS",vi); o.message("MSG1"); o.write("REALS",vf); o.write("DOUBS",vd); o.write("LOGIS",vb); o.write("CHARS",vs); o.write("C020",vc,20); o.write("TAIL",std::vector<int>{42}); }
        EclFile f(fn, EclFile::Formatted{fmt}); f.loadData(); auto list=f.getList(); nchk++; if(list.size()!=8){ V("array count "+std::to_string(list.size())+" len="+std::to_string(len)); continue; }
        const auto& ri=f.get<int>("INTS"); nchk++; if(ri!=vi) V("INTS len="+std::to_string(len)+" fmt="+std::to_string(fmt));
        const auto& rf=f.get<float>("REALS"); nchk++; bool okf=rf.size()==vf.size(); for(size_t i=0;okf&&i<vf.size();i++){ if(fmt) okf= std::fabs(rf[i]-vf[i])<=1e-7f*std::fabs(vf[i]) ; else okf= std::memcmp(&rf[i],&vf[i],4)==0; if(!okf) std::cout<<"   real "<<i<<" got "<<rf[i]<<" exp "<<vf[i]<<"\n"; } if(!okf) V("REALS len="+std::to_string(len)+" fmt="+std::to_string(fmt)+" ix="+std::to_string(ix));
        const auto& rd=f.get<double>("DOUBS"); nchk++; bool okd=rd.size()==vd.size(); for(size_t i=0;okd&&i<vd.size();i++){ if(fmt) okd= std::fabs(rd[i]-vd[i])<=1e-13*std::fabs(vd[i]); else okd= std::memcmp(&rd[i],&vd[i],8)==0; if(!okd) std::cout<<"   doub "<<i<<" got "<<rd[i]<<" exp "<<vd[i]<<"\n"; } if(!okd) V("DOUBS len="+std::to_string(len)+" fmt="+std::to_string(fmt)+" ix="+std::to_string(ix));
        const auto& rb=f.get<bool>("LOGIS"); nchk++; if(rb!=vb) V("LOGIS len="+std::to_string(len)+" fmt="+std::to_string(fmt)+" ix="+std::to_string(ix));
        const auto& rs=f.get<std::string>("CHARS"); nchk++; if(rs!=vs) V("CHARS len="+std::to_string(len)+" fmt="+std::to_string(fmt));
        const auto& rc=f.get<std::string>("C020"); nchk++; if(rc!=vc) V("C020 len="+std::to_string(len)+" fmt="+std::to_string(fmt));
        const auto& rt=f.get<int>("TAIL"); nchk++; if(rt!=std::vector<int>{42}) V("TAIL len="+std::to_string(len));
      }catch(const std::exception&e){ V(std::string("EXC len=")+std::to_string(len)+" fmt="+std::to_string(fmt)+" ix="+std::to_string(ix)+" "+std::string(e.what()).substr(0,150)); }
    } }
  std::cout<<"checks="<<nchk<<" viol="<<nviol<<"\n"; }
