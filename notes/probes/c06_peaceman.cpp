#include <opm/input/eclipse/Parser/Parser.hpp>
#include <opm/input/eclipse/Deck/Deck.hpp>
#include <opm/input/eclipse/EclipseState/EclipseState.hpp>
#include <opm/input/eclipse/Schedule/Schedule.hpp>
#include <opm/input/eclipse/Schedule/Well/Well.hpp>
#include <opm/input/eclipse/Schedule/Well/WellConnections.hpp>
#include <opm/input/eclipse/Schedule/Well/Connection.hpp>
#include <opm/input/eclipse/Python/Python.hpp>
#include <opm/input/eclipse/Units/UnitSystem.hpp>
#include <iostream>
#include <sstream>
#include <random>
#include <cmath>
using namespace Opm;
int main(int argc,char**argv){
  std::mt19937_64 rng(atoi(argv[1])); auto U=[&](double a,double b){return std::uniform_real_distribution<double>(a,b)(rng);};
  auto LU=[&](double a,double b){return std::exp(U(std::log(a),std::log(b)));};
  Parser parser; auto python=std::make_shared<Python>(); int nviol=0, n=0;
  for(int it=0;it<atoi(argv[2]);++it){
    double dx=LU(5,500), dy=LU(5,500), dz=LU(0.5,50), kx=LU(0.1,1e4), ky=LU(0.1,1e4), kz=LU(0.01,1e3), ntg=U(0.2,1.0);
    const char* dirs[]={"X","Y","Z"}; int d=rng()%3; int mask=rng()%16; double skin=U(-1,5); double diam=LU(0.05,0.5);
    double cfin=LU(0.1,100), khin=LU(10,1e5), r0in=LU(1,100);
    std::ostringstream s; s.precision(17);
    s<<"RUNSPEC\nDIMENS\n 1 1 1 /\nOIL\nWATER\nGAS\nMETRIC\nTABDIMS\n/\nWELLDIMS\n 2 5 2 2 /\nSTART\n 1 JAN 2020 /\nGRID\nDX\n "<<dx<<" /\nDY\n "<<dy<<" /\nDZ\n "<<dz<<" /\nTOPS\n 1000 /\nPERMX\n "<<kx<<" /\nPERMY\n "<<ky<<" /\nPERMZ\n "<<kz<<" /\nPORO\n 0.2 /\nNTG\n "<<ntg<<" /\nPROPS\nSOLUTION\nSCHEDULE\nWELSPECS\n 'W' 'G' 1 1 1* OIL /\n/\nCOMPDAT\n 'W' 1 1 1 1 OPEN 1* ";
    if(mask&1) s<<cfin<<" "; else s<<"1* ";
    if(mask&2) s<<diam<<" "; else s<<"1* ";
    if(mask&4) s<<khin<<" "; else s<<"1* ";
    s<<skin<<" 1* "<<dirs[d]<<" ";
    if(mask&8) s<<r0in<<" "; else s<<"1* ";
    s<<"/\n/\nTSTEP\n 1 /\n";
    try{
      auto deck=parser.parseString(s.str()); EclipseState es(deck); Schedule sched(deck,es,python);
      const auto& c=sched.getWell("W",0).getConnections()[0];
      double lhs=c.CF()*(std::log(c.r0()/c.rw())+c.skinFactor()); double rhs=2*M_PI*c.Kh(); double rel=std::fabs(lhs-rhs)/std::fabs(rhs);
      n++;
      bool allthree=(mask&1)&&(mask&4)&&(mask&8);
      if(rel>1e-9 && !allthree && c.r0()>c.rw()){ nviol++; if(nviol<10) std::cout<<"VIOL mask="<<mask<<" dir="<<dirs[d]<<" rel="<<rel<<" CF="<<c.CF()<<" Kh="<<c.Kh()<<" r0="<<c.r0()<<" rw="<<c.rw()<<" S="<<c.skinFactor()<<"\n"; }
      // reference r0 and Kh
      double K[3]={kx,ky,kz}, D[3]={dx,dy,dz*ntg}; int p[3][3]={{1,2,0},{2,0,1},{0,1,2}};
      double K0=K[p[d][0]]*9.869233e-16, K1=K[p[d][1]]*9.869233e-16, D0=D[p[d][0]], D1=D[p[d][1]], D2=D[p[d][2]];
      double r0ref=0.28*std::sqrt(std::sqrt(K1/K0)*D0*D0+std::sqrt(K0/K1)*D1*D1)/(std::pow(K1/K0,0.25)+std::pow(K0/K1,0.25));
      double khref=std::sqrt(K0*K1)*D2;
      if(!(mask&8) && !((mask&1)&&(mask&4))&& std::fabs(c.r0()-r0ref)/r0ref>1e-6){ std::cout<<"R0 mismatch mask="<<mask<<" "<<c.r0()<<" vs "<<r0ref<<"\n"; nviol++;}
      if(!(mask&4) && !(mask&1) && std::fabs(c.Kh()-khref)/khref>1e-6){ std::cout<<"Kh mismatch mask="<<mask<<" "<<c.Kh()<<" vs "<<khref<<"\n"; nviol++;}
    }catch(const std::exception&e){ std::cout<<"EXC "<<e.what()<<"\n"; }
  }
  std::cout<<"cases="<<n<<" viol="<<nviol<<"\n";
}
